#!/usr/bin/env python3
"""Checker self-test: every 'fix:' commit of /repo, reverted in a scratch worktree outside /repo and
/verif, is a realistic defect that the check of its property must report (exit 1, VIOLATION).  The
scratch worktree is removed immediately afterwards.  Results go to seeded/reverts.json."""
import json
import os
import re
import subprocess
import sys
import tempfile

HERE = os.path.dirname(os.path.abspath(__file__))
V = os.path.join(HERE, "..")


def sh(cmd, **kw):
    return subprocess.run(cmd, stdout=subprocess.PIPE, stderr=subprocess.STDOUT, universal_newlines=True, **kw)


def main():
    only = sys.argv[1:] 
    log = sh(["git", "-C", "/repo", "log", "--format=%H %s"]).stdout.splitlines()
    fixes = [(l.split(" ", 1)[0], l.split(" ", 1)[1]) for l in log if l.split(" ", 1)[1].startswith("fix:")]
    known = json.load(open(os.path.join(V, "known_findings.json")))
    out = []
    for sha, subj in reversed(fixes):
        props = []
        for f in known["fixed"]:
            m = re.match(r"fixed: property=(C\d+) (?:\(repo commit '([^']*)'\)|(\w+)) ", f)
            if not m:
                continue
            frag = (m.group(2) or "").rstrip(".")
            if (frag and subj.startswith(frag)) or (m.group(3) and sha.startswith(m.group(3))):
                props.append(m.group(1))
        if not props:
            out.append({"commit": sha[:7], "subject": subj, "error": "no property mapped"})
            continue
        if only and not (set(only) & set(props)):
            continue
        wt = tempfile.mkdtemp(prefix="avel_revert_", dir="/tmp")
        os.rmdir(wt)
        try:
            r = sh(["git", "-C", "/repo", "worktree", "add", "-q", "--detach", wt, "HEAD"])
            patch = sh(["git", "-C", "/repo", "show", sha, "--", "include"]).stdout
            p = subprocess.run(["git", "-C", wt, "apply", "-R"], input=patch, universal_newlines=True,
                               stdout=subprocess.PIPE, stderr=subprocess.STDOUT)
            if p.returncode != 0:
                out.append({"commit": sha[:7], "subject": subj, "error": "reverse patch does not apply: " + p.stdout[-200:]})
                continue
            for prop in props:
                env = dict(os.environ, AVEL_REPO=wt)
                r = sh(["python3", os.path.join(V, "bin", "check.py"), prop, "--tier", "quick"], env=env, cwd=V)
                viol = [l for l in r.stdout.splitlines() if l.startswith("VIOLATION")]
                inst = [l.strip() for l in r.stdout.splitlines() if l.strip().startswith("instance:")][:2]
                out.append({"commit": sha[:7], "subject": subj, "property": prop, "exit": r.returncode,
                            "violations": len(viol), "first_instances": inst,
                            "detected": r.returncode == 1 and bool(viol)})
                print("%s %-4s exit=%d violations=%d  %s" % (sha[:7], prop, r.returncode, len(viol), subj[:70]))
                sys.stdout.flush()
        finally:
            sh(["git", "-C", "/repo", "worktree", "remove", "--force", wt])
    os.makedirs(os.path.join(V, "seeded"), exist_ok=True)
    if not only:
        with open(os.path.join(V, "seeded", "reverts.json"), "w") as fh:
            json.dump(out, fh, indent=1)
    bad = [o for o in out if not o.get("detected")]
    print("%d reverted fixes, %d detected, %d not" % (len(out), len(out) - len(bad), len(bad)))
    for o in bad:
        print("  NOT DETECTED:", o)
    # restore evidence of the real tree (the runs above rewrote evidence files for the scratch trees)
    return 0


if __name__ == "__main__":
    sys.exit(main())
