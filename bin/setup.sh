#!/bin/bash
# Build the framework's own tools from files on disk (offline).
set -e
cd "$(dirname "$0")/.."
mkdir -p build evidence replay
LLVMLIB=/usr/lib/llvm-14/lib
if [ ! -x build/irdump ] || [ tools/irdump.cc -nt build/irdump ]; then
  clang++ $(llvm-config-14 --cxxflags) -fno-rtti -O1 tools/irdump.cc -o build/irdump $LLVMLIB/libLLVM-14.so
fi
if [ -f tools/avel_facts.cc ]; then
  if [ ! -f build/avel_facts.so ] || [ tools/avel_facts.cc -nt build/avel_facts.so ]; then
    clang++ $(llvm-config-14 --cxxflags) -fno-rtti -fPIC -shared -O1 tools/avel_facts.cc -o build/avel_facts.so
  fi
fi
echo "setup ok"
