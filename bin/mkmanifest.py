#!/usr/bin/env python3
"""Regenerate MANIFEST.json from the table below (single source of truth)."""
import json, os
HERE = os.path.dirname(os.path.abspath(__file__))
V = os.path.join(HERE, "..")

TB = ("clang 14 front end and -O2 pipeline preserve the meaning of UB-free executions; LLVM LangRef "
      "semantics of generic IR; spec/isa.py (one SDM sentence per x86 intrinsic); mask representation "
      "invariants assumed on inputs and guaranteed on outputs; GCC is covered at source level only")

CHECKS = {
 "C01": dict(cat="other", tech="abstract interpretation of optimised LLVM IR into lane-wise closed forms; normal-form equality with add/sub/mul mod 2^n",
   text="(ub clause: width-1 types on IR without UB-exploiting passes, overflow-flag obligations.) For every integer vector type of every analysed macro set, the optimised IR of + - * unary- ++ -- (binary, compound, returned value) is summarised statically into a closed form per lane and must be identical to add/sub/mul modulo 2^bits of the same lane of the operands; that decides the clause for all operand values, all lanes, every configuration enumerated. Emulated multiplies are normalised by algebraic slice rules (low-bits, schoolbook) and decided as well.",
   note=TB, ref="4/C01"),
 "C02": dict(cat="other", tech="abstract interpretation of optimised LLVM IR; icmp/fcmp predicate normal forms incl. lexicographic two-halves merging",
   text="Every comparison operator of every vector type x configuration must normalise to icmp/fcmp with the predicate the C++ scalar operator has for that element type (signedness, IEEE unordered behaviour) on the same lane, packed in the mask representation; decides all lane values.",
   note=TB, ref="4/C02"),
 "C10": dict(cat="other", tech="abstract interpretation of optimised LLVM IR, compiled both with clang's default floating-point model and with -frounding-math (constrained intrinsics, nothing folded under the default-environment assumption); fadd/fsub/fmul/fdiv/sqrt primitive forms, sign-bit form for negation; other forms compared by exact IEEE evaluation of the closed forms under four rounding modes",
   text="Every float vector type x configuration: + - * / (compound, ++/--) and sqrt must be exactly one IEEE primitive (no fast-math flag) on the same lanes of both operands; unary minus must be the sign-bit flip. The primitive is the correctly rounded operation under the current MXCSR mode by definition.",
   note=TB, ref="4/C10"),
 "C03": dict(cat="other", tech="abstract interpretation of optimised LLVM IR; boolean normal forms over mask bits under the representation invariant (assume on inputs, guarantee on outputs); truth tables over argument bits and over memory bits read through pointer arguments (std::array<bool,N>); closed forms containing float compares are evaluated a second time with MXCSR.DAZ set (a mask operation must not depend on the floating-point environment)",
   text="All mask operations of all mask types x configuration (& | ^ ! && || == != count any all none extract<I>/insert<I> for every I, construction from bool / array<bool>, Vector(mask), set_bits, mask(Vector)) are summarised into boolean formulas over the lane truth values and must equal the specified formula; results must be in canonical representation (k-register: bits >= N clear; lane mask: uniform lanes).",
   note=TB + "; memory passed as std::array<bool,N> holds valid bools (0/1)", ref="4/C03"),
 "C04": dict(cat="other", tech="abstract interpretation of optimised LLVM IR; bitwise/shift/rotate normal forms, x86 shift intrinsics by SDM saturation semantics, every compile-time amount enumerated; emulated run-time amounts by a complete case split on the amount (each value substituted, wrapper re-summarised) after a syntactic lane-independence check",
   text="& | ^ ~, shifts by scalar / per-lane vector / compile-time amount (every S in [0,bits]) and rotations (compile-time amounts up to 2*bits+3, run-time scalar and per-lane) of every integer vector type x configuration must normalise to the saturating shift / funnel-shift closed form of the same lane; amounts are constrained to the documented domain by the argument encoding.",
   note=TB + "; shift amounts assumed in [0, 2*bits) (superset of the documented [0,bits])", ref="4/C04"),
 "C06": dict(cat="other", tech="abstract interpretation of optimised LLVM IR into closed forms; ctpop/ctlz/cttz/bswap primitive normal forms and byte provenance; truth tables for 8/16-bit lanes; known-bits x interval abstract interpretation under complete case splits (position of the highest/lowest set or clear bit) for 32/64-bit lanes incl. int->float-exponent emulations; poison (zero-undef, over-wide shift) reachable on a valid input is a refutation; ROBDD comparison (canonical form per output bit, lib/bdd.py) of integer closed forms that the other procedures leave open (SWAR popcount on 32/64-bit lanes)",
   text="popcount, countl/r_zero/one, bit_width, has_single_bit, countl_sign are decided where the build's ISA gives the primitive (LZCNT/BMI/POPCNT/AVX-512CD/VPOPCNTDQ/BITALG) by normal form; byteswap is decided for all types by byte provenance; emulated versions are compared as closed forms against the <bit> definition (REFUTED with a witness when they are fully interpreted and differ, otherwise UNDECIDED and listed).",
   note=TB + "; the abstract transfer functions over-approximate the concrete evaluator (bin/selftest_absint.py); SWAR popcount on 32/64-bit lanes stays UNDECIDED, not covered", ref="4/C06"),
 "C07": dict(cat="other", tech="abstract interpretation of optimised LLVM IR; select/min/max/abs/sign-bit normal forms; carry-save averaging identity and adder narrowing as normal-form rules, alternative specification form for midpoint (derivation in spec/ops.py, cross-checked exhaustively at 8 bits on every run); ordered-case table for float min/max; ROBDD comparison (canonical form per output bit) for two-operand 32/64-bit integer forms (signed average / midpoint emulations with comparison-based rounding corrections)",
   text="blend/keep/clear (select on the mask lane, operand order), integer min/max/minmax/clamp (predicate of the type's signedness), abs/neg_abs/negate (no nsw: abs(MIN) is MIN's pattern), float abs/neg_abs/negate/copysign (sign bit only), float min/max (picks smaller/larger operand in both strict orderings) are decided for every type x configuration; average/midpoint emulations are compared as closed forms (witness-refutable, else UNDECIDED).",
   note=TB + "; clamp witnesses restricted to lo<hi; float min/max only for ordered inputs as the statement scopes it", ref="4/C07"),
 "C08": dict(cat="other", tech="byte provenance over optimised LLVM IR (load/store/masked/gather/scatter/shuffle transfer functions), exhaustive over element counts and lane indices; alignment-claim and poison obligations",
   text="For every vector type x configuration and every element count n in 0..width+2 (compile-time forms, literal n, and the run-time form by substituting each n - plus large values up to 2^32-1 - into the if-converted summary) each returned byte of load/aligned_load/gather is proven to be memory byte p+j (resp. p[idx[i]]) or 0, each stored byte of store/aligned_store/scatter/to_array to be byte j of v at p+j and nothing else; extract<I>/insert<I> for every I move exactly lane I; unaligned forms must not claim vector alignment; the lane mask computation must not be poison for any n.",
   note=TB + "; quick tier samples n and I for types wider than 16 lanes, thorough enumerates all", ref="4/C08"),
 "C09": dict(cat="other", tech="architectural byte-footprint analysis over optimised LLVM IR with an ISA table classifying every memory-touching intrinsic (size, fault suppression)",
   text="Same instance set as C08: the set of (base, byte range, read/write, fault-suppressed) accesses of each instance must lie inside [p, p+min(n,width)*size), be empty for n==0, and for gather/scatter contain only elements addressed by active lanes with sign-extended indices. MASKMOVDQU counts with its full 16-byte non-suppressed footprint (known finding).",
   note=TB + "; SDM fault-suppression statements for masked moves/gathers", ref="4/C09"),
 "C11": dict(cat="other", tech="rounding-primitive normal forms (SDM ROUND/RNDSCALE immediates), in the default and the -frounding-math compilation; emulations (incl. those that switch on the MXCSR rounding control read by STMXCSR) compared by exact IEEE evaluation of the closed forms under four rounding modes; whole-catalogue effect inventory with bit-level provenance of MXCSR writers",
   text="(value) ceil/floor/trunc/nearbyint/rint of every float type x configuration must be exactly one rounding primitive with the immediate / libm function of that name on the same lane (a different primitive is refuted from a value table, incl. mode-independent immediates for nearbyint/rint); round-half-away and SSE2 cvtt-based emulations are UNDECIDED. (fenv) every wrapper of the catalogue is scanned for MXCSR / fenv writers in the resolved IR: each LDMXCSR must write back bits 6..15 exactly as read by the preceding STMXCSR; a positive control requires the known writers (quiet comparisons below AVX) to be found.",
   note=TB + "; quick tier scans the float families, thorough every family", ref="4/C11"),
 "C13": dict(cat="other", tech="finite partition decision procedures over closed forms: field-aligned partition (sign x exponent x mantissa intervals) and, for compares assembled from sub-field pieces, the general segment partition (lane cut at every atom boundary, representatives realising every per-segment trichotomy); fcmp predicate normal forms",
   text="fpclassify/isnan/isinf/isfinite/isnormal/signbit of every float type x configuration: the lane's closed form may touch the value only through field-aligned comparison atoms (whole pattern, abs, exponent, mantissa, sign, vfpclass); it is then constant on each cell of a finite partition and is evaluated on every cell against the C library classification - exhaustive for all 2^32 / 2^64 patterns. Quiet comparisons must be the fcmp predicate of that name.",
   note=TB + "; SDM VFPCLASS category table", ref="4/C13"),
 "C17": dict(cat="other", tech="byte/bit provenance over optimised LLVM IR for every provided conversion pair, incl. bit_cast between mask types of identical primitive size (identity on the primitive)",
   text="convert<>, converting constructors, mask conversions and bit_cast for every provided pair of types of every configuration must be the identity on the representation (truth value per lane for masks, k-mask upper bits clear); width-1 cross-size conversions must be exactly trunc / sext-iff-signed / zext.",
   note=TB + "; bit_cast analysed in the memcpy variant (C++11, clang)", ref="4/C17"),
 "C05": dict(cat="other", tech="bisimulation equality of optimised function bodies (A-ireq), trap-effect inventory with non-zero-divisor proof over terms, closed-form comparison of the emulations (bounded loops unrolled by the IR->term interpreter until the back-edge condition normalises to false)",
   text="NARROW CLAIM. Decided for every integer vector type x configuration: (a) x/y, x%y, /=, %= have bodies bisimilar to div(x,y).quot/.rem, so div returns the same pair as / and %; (b) no multi-lane div contains a hardware division whose divisor can be zero (term-level non-zero proof), positive control on width-1; (c) division emulations - loop-free ones and long-division loops with a constant trip bound, unrolled - are compared as closed forms with truncating division on the lane for non-zero divisors (8-bit table-based forms by truth table; otherwise refutable by witness incl. cross-lane probes); the comparison is repeated with the lanes whose own divisor is invalid masked out on both sides over inputs that contain zero divisors, which decides 'a zero divisor in one lane does not change any other lane' on the refutation side; for 8/16-bit lanes the masked forms are also compared as ROBDDs (truncating division blasted as a restoring divider; other lanes optionally abstracted into free variables), which proves that clause and value exactness for the emulations whose diagrams stay within the node budget. NOT decided: value exactness of the long-division and reciprocal emulations where no witness is found (UNDECIDED, listed).",
   note=TB + "; lane independence of the SSE2..AVX2 loops is not claimed (cross-lane loop exit condition)", ref="4/C05"),
 "C20": dict(cat="proof", tech="effect inventory over the resolved IR of every prefetch instantiation (no load/store/call other than llvm.prefetch; operand and stride checks; a hardware division needs a provably non-zero divisor; loop termination rule)",
   text="Every instantiation of prefetch_read/prefetch_write (3 levels x untyped/typed x default n) at -O1 and -O2 in each analysed configuration contains only address arithmetic, control flow and llvm.prefetch(p+i, rw, 3-level, data) with a positive constant stride; llvm.prefetch has no effect on program behaviour (LangRef) and PREFETCHh never faults (SDM).",
   note="LLVM LangRef llvm.prefetch; SDM PREFETCHh; GCC takes the same source branch (C19 branch-selection equality)", ref="4/C20", engine="E4-effects"),
 "C16": dict(cat="other", tech="closed-form comparison of every scalar overload with the lane specification per scalar feature set; bisimulation vs the width-1 vector operation; UB obligations on unoptimised IR",
   text="(scalar-vs-spec) every scalar overload in avel/Scalar.hpp (bit functions, rotations, min/max/clamp, abs/neg_abs/negate, average/midpoint, keep/clear/blend, float classification/rounding/sqrt, mixed-sign cmp_*) under each scalar feature set is summarised from optimised IR and compared with the same lane specification the vector checks use (normal form, field partition, or exhaustive sign/order case analysis for cmp_*); (vec1-vs-scalar) the width-1 vector operation and the scalar overload have bisimilar bodies; (ub) on IR produced without any UB-exploiting pass (always-inline + inline + sroa only) every overflow-flagged arithmetic, shift amount and zero-undef count obligation is checked on the documented input lattice (a violated obligation is a refutation with the input).",
   note=TB + "; UB clause: absence of a violation on the boundary lattice is not a proof of UB-freedom, a violation found is real", ref="4/C16"),
 "C15": dict(cat="other", tech="compile-fail/SFINAE-free existence (wrapper must compile), closed-form comparison with lane division incl. UB obligations, bisimulation of broadcast-from-scalar vs broadcast vector",
   text="STRUCTURAL CLAIM. For every integer vector type x configuration: Denominator<V>(Denominator<scalar>(d)) must exist (a non-compiling wrapper is a violation), div by it is compared as a closed form with truncating division of every lane by d (witness-refutable: found 1/1 == 0 for the unsigned broadcast constructors) and its body with that of Denominator<V>(V{d}); value() must be public and return the divisors; / % /= %= bisimilar to div().quot/.rem. Per-lane exactness of the multiply-shift scheme itself is compared where interpreted and otherwise UNDECIDED (numeric core not decided).",
   note=TB + "; one known finding (Denominator<int32_t>(INT32_MIN))", ref="4/C15"),
 "C18": dict(cat="other", tech="symbolic summary of allocate/deallocate from optimised IR per (T, A, build, n): primitive pairing, size sufficiency, low-bit alignment proof, bookkeeping store provenance and claimed-vs-provable alignment",
   text="For T in {1,2,4,8,16,64-byte types} x A in {alignof(T)..4096} x builds {no macro C++11/14/17/20, SSE2 C++11/17} x n (incl. 0 and sizes not multiple of 8): allocate calls exactly one allocation primitive with a sufficient size (over-allocation: n*sizeof(T)+(A-1)+sizeof(size_t)), the returned pointer's low log2(A) bits are provably zero (or it is the primitive's pointer with a sufficient alignment argument), the offset word is written at aligned+n*sizeof(T) with value aligned-raw by an access that claims no more alignment than provable; deallocate frees exactly the pointer obtained (p, or p minus the word read byte-wise from the same place). The header must compile in every build. Any history reduces to independent pairs because the allocator is stateless (static_assert) and touches no global.",
   note="C library allocation contracts; clang -O2 preserves UB-free meaning; histories are reduced to per-call rules by statelessness", ref="4/C18", engine="E3-lanewise"),
 "C19": dict(cat="other", tech="compile-fail / static_assert / SFINAE witnesses with g++ and clang++, compile-time constants read from IR, preprocessor conditional-region equality, wrapper catalogue as declared-and-defined parity witness; every implication documented in docs/Capabilities.md checked against the macro closure computed by the preprocessor",
   text="Enumerates the macro-set lattice (each single macro with only its own flag, ladder prefixes, AVX-512 sub-extension combinations, full set) x {explicit, AVEL_AUTO_DETECT} x {g++, clang++} x standards: both public headers must compile; AVEL_AUTO_DETECT must give the same complete Vector<T,N> set and natural/max widths; static_assert witnesses demand exactly the documented widths, alias identities and completeness of vecNx*/vecMx*/mask/arr aliases, sizeof == N*sizeof(T), trivial copyability and mask triviality; every catalogue operation the width-1 vector of an element type offers must compile AND reach no declared-but-undefined avel function for every wider vector; g++ and clang++ must activate the same conditional regions outside AVEL_GCC/AVEL_CLANG blocks.",
   note="g++ 12 / clang++ 14 front ends; NEON/MSVC/ICPX/AVX10 branches cannot be analysed here; the x86-64 baseline makes auto-detect comparison meaningless for macro sets without SSE2 (UNDECIDED)", ref="4/C19", engine="E2-witness"),
 "C14": dict(cat="other", tech="closed-form summary of div(n, Denominator<T>(d)) from optimised IR; truth-table equivalence with truncating division for the 8-bit types (all 2^16 pairs), boundary-lattice refutation search and UB obligations for wider types; bisimulation of operator forms",
   text="PARTIAL CLAIM, stated as such. Complete for Denominator<uint8_t>/<int8_t>: the closed form in (n, d) is evaluated on every (n, d) pair of the domain against C++ truncating division (this is the property's own exhaustive quantifier for 8-bit types, applied to the summary, not to the program). For 16/32/64-bit types the same comparison runs on the boundary lattice only: a difference or an undefined operation (signed overflow, over-wide shift) on a valid (n, d) is a refutation with its input; nothing found is UNDECIDED, not a pass. / % /= %= are tied to div by body equality, value() must return d, all members must exist.",
   note=TB + "; correctness of the Granlund-Montgomery constants beyond 8 bits is NOT decided; one known finding (d = INT32_MIN)", ref="11.2/C14"),
 "C12": dict(cat="other", tech="closed-form summary from optimised IR compared with exact <cmath> reference functions on rationals (all four rounding modes); forwarding rule for the width-1 / scalar code; fmax/fmin emulations built from float compares and selects are decided by a finite case analysis over the six order types of (a, b); otherwise refutation by witness only; frexp/ldexp/scalbn compare bit patterns (sign of zero results significant, NaNs equal), the others compare numbers; exponent sweep for one-operand functions; default and -frounding-math compilation",
   text="PARTIAL CLAIM, stated as such. frexp (significand and stored exponent), ldexp, scalbn, ilogb, logb, frac, fmax, fmin, fdim of every float vector type x configuration are summarised into closed forms. Decided (HOLDS) only where the body is the C library function itself (width-1 vectors forward to libm: the call is the specification). For the SIMD emulations built from bit operations and float arithmetic the closed form is evaluated exactly (rational arithmetic, four rounding modes) on a lattice of IEEE boundary values against reference implementations of the <cmath> definitions: a difference is a refutation with its input (found on the pinned tree: frexp(-0.0f), ldexp with extreme exponents - replayed on hardware); no difference is UNDECIDED, never a pass. AVX-512 getexp/getmant/scalef/fixupimm forms are unmodelled (UNDECIDED).",
   note=TB + "; floats compared as numbers (+0 == -0, NaN == NaN); fdim not judged for NaN operands or inf-inf; glibc values of FP_ILOGB0/FP_ILOGBNAN", ref="11.2/C12"),
}

NA = {
}
PENDING = "check not built yet in this framework revision (planned, see DESIGN.md section 4)"
ALL = ["C%02d" % i for i in range(1, 21)]
NA_FIXED = {
}

def main():
    checks = []
    for pid in ALL:
        if pid not in CHECKS:
            continue
        c = CHECKS[pid]
        checks.append({
            "property_id": pid,
            "quick_cmd": "python3 bin/check.py %s --tier quick" % pid,
            "thorough_cmd": "python3 bin/check.py %s --tier thorough" % pid,
            "evidence_file": "/verif/evidence/%s.json" % pid,
            "replay_cmd_template": "python3 bin/check.py --replay {path}",
            "engine": c.get("engine", "E3-lanewise"),
            "level_claimed": {"category": c["cat"], "text": c["text"], "design_ref": "DESIGN.md section " + c["ref"]},
            "level_note": c["note"],
            "technique": c["tech"],
        })
    na = []
    for pid in ALL:
        if pid in CHECKS:
            continue
        na.append({"property_id": pid, "reason": NA_FIXED.get(pid, PENDING)})
    m = {
        "version": 1,
        "setup_cmd": "bash bin/setup.sh",
        "hooks": {"guard": "AVEL_VERIF", "enable": "no hooks: every engine looks at /repo from outside (wrapper TUs in /verif include /repo/include)",
                  "baseline_off_cmd": "cmake --build /repo/_build -j16 && /repo/_build/tests/AVEL_TESTS",
                  "source_commits": [], "add_only": True},
        "engines": [
            {"name": "E2-witness", "path": "checks/c19.py", "serves_properties": ["C19"], "kind_free_text": "type-level witnesses compiled with both compilers"},
            {"name": "E4-effects", "path": "checks/c20.py", "serves_properties": ["C20"], "kind_free_text": "effect inventory over IR JSON"},
            {"name": "E3-lanewise", "path": "lib/irterm.py", "serves_properties": sorted(k for k in CHECKS if CHECKS[k].get("engine", "E3-lanewise") == "E3-lanewise"),
             "kind_free_text": "generated wrapper TUs -> clang -O2 -emit-llvm -> irdump (libLLVM) -> abstract interpretation into a bit-vector term domain; normal-form comparison; witness from closed forms"},
        ],
        "checks": checks,
        "not_applicable": na,
        "notes": "Static analysis only: nothing from /repo is executed. Exit 0 held / 1 VIOLATION / 2 analysis broken.",
    }
    with open(os.path.join(V, "MANIFEST.json"), "w") as fh:
        json.dump(m, fh, indent=1)
    print("MANIFEST.json: %d checks, %d not_applicable" % (len(checks), len(na)))

if __name__ == "__main__":
    main()
