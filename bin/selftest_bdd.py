#!/usr/bin/env python3
"""Soundness self-test of lib/bdd.py: for random integer terms the blasted BDD vector, evaluated under a
random assignment of the argument bits, must equal term.ev on the same arguments; and decide() must agree
with exhaustive evaluation on small widths (HOLDS iff the truth tables are equal, REFUTED witnesses differ)."""
import os
import random
import sys

V = os.path.join(os.path.dirname(os.path.abspath(__file__)), "..")
sys.path[:0] = [os.path.join(V, "lib"), os.path.join(V, "spec"), os.path.join(V, "bin")]
import term as T
import bdd
from selftest_absint import rand_term as rt0


def rand_term(rnd, xs, depth):
    x = rnd.choice(xs)
    W = x[1]
    if depth == 0 or rnd.random() < 0.12:
        return x if rnd.random() < 0.75 else T.const(W, rnd.choice([0, 1, W, W - 1, (1 << W) - 1, rnd.getrandbits(W)]))
    k = rnd.randrange(17)
    a = rand_term(rnd, xs, depth - 1)
    b = rand_term(rnd, xs, depth - 1)
    if k == 0:
        return T.mk(rnd.choice(["shlsat", "lshrsat", "ashrsat"]), W, a, T.nary("and", W, [b, T.const(W, 2 * W - 1)]))
    if k == 1:
        return T.mk(rnd.choice(["shl", "lshr", "ashr"]), W, a, T.const(W, rnd.randrange(W)))
    if k == 2 and W & (W - 1) == 0:
        return T.mk(rnd.choice(["fshl", "fshr"]), W, a, b, rand_term(rnd, xs, 1))
    if k == 3:
        return T.mk(rnd.choice(["udiv", "urem", "sdiv", "srem"]), W, a, T.const(W, 1 << rnd.randrange(1, W - 1)))
    if k == 4:
        return T.mk(rnd.choice(["call:llvm.ctlz", "call:llvm.cttz"]), W, a, T.const(1, 0))
    if k == 5:
        return T.mk(rnd.choice(["call:llvm.smin", "call:llvm.smax", "call:llvm.umax", "call:llvm.umin", "call:llvm.uadd.sat",
                                "call:llvm.usub.sat", "call:llvm.sadd.sat", "call:llvm.ssub.sat"]), W, a, b)
    if k == 6 and W >= 16:
        h = W // 2
        return T.concat([T.mk("satus", h, a), T.mk("satss", h, b)])
    if k == 7:
        return T.mk("call:llvm.abs", W, a, T.const(1, 0))
    if k == 8:
        return T.select(T.icmp(rnd.choice(["eq", "ne", "ult", "ule", "ugt", "uge", "slt", "sle", "sgt", "sge"]), a, b), a, b)
    if k == 9:
        return T.mk("call:llvm.ctpop", W, a)
    if k == 10:
        return T.mk("rep", W, T.slice_(a, rnd.randrange(W), 1))
    if k == 11:
        return T.mk("neg", W, a)
    if k == 12:
        return T.nary("mul", W, [a, T.const(W, rnd.choice([3, 5, 0x0101010101010101 & ((1 << W) - 1), 255]))])
    if k == 13:
        return T.mk(rnd.choice(["call:llvm.bswap", "call:llvm.bitreverse"]), W, a) if W >= 16 else T.not_(a)
    if k == 14:
        return T.mk("spec:bit_floor", W, a)
    return rt0(rnd, rnd.choice([a, b]), 1)


def eval_bits(B, bits, asg):
    v = 0
    for i, f in enumerate(bits):
        while f > 1:
            f = B.hi[f] if asg.get(B.var[f]) else B.lo[f]
        v |= f << i
    return v


def main():
    rnd = random.Random(int(sys.argv[1]) if len(sys.argv) > 1 else 5)
    iters = int(sys.argv[2]) if len(sys.argv) > 2 else 1500
    n = bad = unsup = 0
    for it in range(iters):
        W = rnd.choice([8, 8, 16, 32, 64])
        T.reset()
        xs = [T.arg(0, 0, W), T.arg(1, 0, W)]
        try:
            t = rand_term(rnd, xs, rnd.randrange(1, 5))
        except Exception:
            continue
        if T.has_fp(t) or T.contains_op(t, ("sitofp", "uitofp", "fadd")):
            continue
        levels = {}
        for b in range(W):
            for k in range(2):
                levels[(k, b)] = len(levels)
        bl = bdd.Blaster(levels, 400000)
        try:
            bits = bl.blast(t)
        except bdd.Unsupported:
            unsup += 1
            continue
        for _ in range(12):
            args = [rnd.choice([0, 1, (1 << W) - 1, 1 << (W - 1), rnd.getrandbits(W), rnd.getrandbits(W) & 0xFF]) for _ in xs]
            try:
                want = T.ev(t, {"args": args})
            except (T.Poison, T.Uneval):
                continue
            asg = {levels[(k, b)]: (args[k] >> b) & 1 for k in range(2) for b in range(W)}
            got = eval_bits(bl.B, bits, asg)
            n += 1
            if got != want:
                bad += 1
                if bad < 6:
                    print("MISMATCH", T.show(t, 6), [hex(a) for a in args], hex(got), hex(want))
    print("checked %d evaluations (%d terms unsupported), %d mismatches" % (n, unsup, bad))
    # decide() against exhaustive evaluation at 4+4 bits
    dn = dbad = 0
    for it in range(300):
        T.reset()
        xs = [T.arg(0, 0, 4), T.arg(1, 0, 4)]
        try:
            t1 = rand_term(rnd, xs, 2)
            t2 = rand_term(rnd, xs, 2) if rnd.random() < 0.5 else T.nary("add", 4, [t1, T.const(4, 0)])
        except Exception:
            continue
        if t1[1] != 4 or t2[1] != 4:
            continue
        try:
            tt = [(T.ev(t1, {"args": [a, b]}), T.ev(t2, {"args": [a, b]})) for a in range(16) for b in range(16)]
        except (T.Poison, T.Uneval):
            continue
        v, info = bdd.decide(t1, t2, [(4, 4, None), (4, 4, None)], 4)
        if v is None:
            continue
        dn += 1
        same = all(x == y for x, y in tt)
        if (v == "HOLDS") != same:
            dbad += 1
            print("DECIDE WRONG", v, T.show(t1, 5), T.show(t2, 5))
        elif v == "REFUTED":
            a, b = info.get(0, 0), info.get(1, 0)
            if T.ev(t1, {"args": [a, b]}) == T.ev(t2, {"args": [a, b]}):
                dbad += 1
                print("BAD WITNESS", a, b)
    print("decide(): %d pairs, %d wrong" % (dn, dbad))
    return 1 if bad or dbad else 0


if __name__ == "__main__":
    sys.exit(main())
