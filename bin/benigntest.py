#!/usr/bin/env python3
"""Confirm a behaviour-preserving change and run checks against it (they must stay quiet).
usage: benigntest.py <seed_out dir> <name> <prop>[,<prop>...] [--tier quick] [--configs a,b] [--types x,y]
Everything happens in a scratch worktree outside /repo and /verif, removed at the end."""
import json
import os
import re
import shutil
import subprocess
import sys
import tempfile

V = os.path.join(os.path.dirname(os.path.abspath(__file__)), "..")


def sh(cmd, **kw):
    return subprocess.run(cmd, stdout=subprocess.PIPE, stderr=subprocess.STDOUT, universal_newlines=True, **kw)


def run_equiv(src_dir, wt):
    cmd = open(os.path.join(src_dir, "equiv_cmd.txt")).read()
    cmd = re.sub(r"-I\s*<[^>]*>(/include)?", "-I%s/include" % wt, cmd)
    cmd = re.sub(r"<AVEL_ROOT>|<AVEL>|<root>|\$\{?AVEL_ROOT\}?", wt, cmd)
    lines = [l for l in cmd.splitlines() if l.strip() and not l.strip().startswith("#")]
    script = "set -e\ncd %s\n" % src_dir + "\n".join(lines) + "\n"
    r = sh(["bash", "-c", script])
    return r.returncode, r.stdout[-400:]


def main():
    src, name, props = sys.argv[1], sys.argv[2], sys.argv[3].split(",")
    tier = "quick"
    extra = []
    args = sys.argv[4:]
    while args:
        a = args.pop(0)
        if a == "--tier":
            tier = args.pop(0)
        elif a in ("--configs", "--types"):
            extra += [a, args.pop(0)]
    dst = os.path.join(V, "seeded", name)
    os.makedirs(dst, exist_ok=True)
    for f in ([] if os.path.abspath(src) == os.path.abspath(dst) else os.listdir(src)):
        if os.path.isfile(os.path.join(src, f)) and not f.startswith(".") and os.path.getsize(os.path.join(src, f)) < 200000 \
                and f not in ("equiv", "a.out"):
            shutil.copy(os.path.join(src, f), os.path.join(dst, f))
    wt = tempfile.mkdtemp(prefix="avel_benign_", dir="/tmp")
    os.rmdir(wt)
    meta = {"kind": "behaviour-preserving change (the checks must stay quiet)", "name": name, "properties": props}
    try:
        sh(["git", "-C", "/repo", "worktree", "add", "-q", "--detach", wt, "HEAD"])
        work = tempfile.mkdtemp(prefix="avel_eq_", dir="/tmp")
        for f in os.listdir(dst):
            shutil.copy(os.path.join(dst, f), work)
        rc0, out0 = run_equiv(work, wt)
        meta["equiv_unchanged"] = {"exit": rc0, "tail": out0[-160:]}
        p = sh(["git", "-C", wt, "apply", os.path.join(dst, "patch.diff")])
        meta["patch_applies"] = p.returncode == 0
        rc1, out1 = run_equiv(work, wt)
        meta["equiv_changed"] = {"exit": rc1, "tail": out1[-160:]}
        shutil.rmtree(work, ignore_errors=True)
        meta["confirmed_equivalent_by_author_test"] = (rc0 == 0 and rc1 == 0 and meta["patch_applies"])
        env = dict(os.environ, AVEL_REPO=wt)
        meta["checks"] = {}
        for prop in props:
            cmd = ["python3", os.path.join(V, "bin", "check.py"), prop, "--tier", tier] + extra
            r = sh(cmd, env=env, cwd=V)
            lines = r.stdout.splitlines()
            meta["checks"][prop] = {
                "cmd": " ".join(cmd[1:]) + "  (AVEL_REPO=<scratch worktree with the patch applied>)",
                "exit": r.returncode,
                "summary": [l for l in lines if l.startswith("property=")][:1],
                "violations": [l.strip()[:600] for l in lines if l.startswith(("VIOLATION", "  instance:", "  found:", "  distinguishing"))][:8],
                "analysis_broken": [l[:900] for l in lines if l.startswith("ANALYSIS-BROKEN")][:3],
                "quiet": r.returncode == 0}
    finally:
        sh(["git", "-C", "/repo", "worktree", "remove", "--force", wt])
    notes = open(os.path.join(dst, "notes.txt")).read() if os.path.exists(os.path.join(dst, "notes.txt")) else ""
    meta["what_changed"] = notes[:1200]
    with open(os.path.join(dst, "meta.json"), "w") as fh:
        json.dump(meta, fh, indent=1)
    print(json.dumps({k: meta[k] for k in ("name", "confirmed_equivalent_by_author_test", "equiv_unchanged", "equiv_changed", "checks")}, indent=1))


if __name__ == "__main__":
    main()
