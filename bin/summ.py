#!/usr/bin/env python3
"""debug: summarise build/last_<prop>_<tier>.json : python3 bin/summ.py C03 quick [VERDICT] [op]"""
import json, sys, collections
prop, tier = sys.argv[1], sys.argv[2]
verd = sys.argv[3] if len(sys.argv) > 3 else None
opf = sys.argv[4] if len(sys.argv) > 4 else None
d = json.load(open("/verif/build/last_%s_%s.json" % (prop, tier)))
c = collections.Counter()
ex = {}
for i in d:
    k = i["key"]
    if verd and i["verdict"] != verd: continue
    if opf and k.get("op") != opf: continue
    key = (i["verdict"], k.get("op"), k.get("type"))
    c[key] += 1
    ex.setdefault(key, (k.get("cfg"), k.get("param"), (i.get("detail") or "")[:int(sys.argv[5]) if len(sys.argv) > 5 else 300], i.get("witness")))
for key, n in sorted(c.items()):
    print(n, key, ex[key])
