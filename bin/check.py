#!/usr/bin/env python3
"""Entry point: python3 bin/check.py <property> --tier quick|thorough
   exit 0: held on everything decided; 1: VIOLATION; 2: analysis broken."""
import argparse
import importlib
import os
import sys

HERE = os.path.dirname(os.path.abspath(__file__))
sys.path.insert(0, os.path.join(HERE, "..", "lib"))
sys.path.insert(0, os.path.join(HERE, "..", "spec"))
sys.path.insert(0, os.path.join(HERE, "..", "checks"))


def main():
    ap = argparse.ArgumentParser()
    ap.add_argument("prop", nargs="?")
    ap.add_argument("--tier", default=os.environ.get("VERIF_TIER", "quick"))
    ap.add_argument("--write-floor", action="store_true")
    ap.add_argument("--replay")
    ap.add_argument("--configs", help="comma separated configuration names (debug)")
    ap.add_argument("--types", help="comma separated type names (debug)")
    a = ap.parse_args()
    import common
    if a.replay:
        import json
        with open(a.replay) as fh:
            r = json.load(fh)
        print(json.dumps(r, indent=1))
        prop = r["property"]
        mod = importlib.import_module(prop.lower())
        if hasattr(mod, "replay"):
            return mod.replay(r)
        return 0
    if a.tier not in ("quick", "thorough"):
        a.tier = "quick"
    mod = importlib.import_module(a.prop.lower())
    common.PARTIAL[0] = bool(a.configs or a.types)
    try:
        code = mod.run(a.tier, a)
    except common.Broken as e:
        print("ANALYSIS-BROKEN property=%s %s" % (a.prop, e))
        code = 2
    try:
        common.cache_prune()
    except Exception:
        pass            # housekeeping must never change the verdict
    return code


if __name__ == "__main__":
    sys.exit(main())
