#!/usr/bin/env python3
"""debug: python3 bin/inspect.py <cfg> <type> <family> [op-substring] [--ir]"""
import json, os, sys, re
HERE = os.path.dirname(os.path.abspath(__file__))
for d in ("lib", "spec", "checks"):
    sys.path.insert(0, os.path.join(HERE, "..", d))
import common, e3, ops, isa, irterm, runner, term as T
cfg = common.config_by_name(sys.argv[1])
vt = runner._vt_by_name(sys.argv[2])
fam = sys.argv[3]
sub = sys.argv[4] if len(sys.argv) > 4 and not sys.argv[4].startswith("--") else ""
showir = "--ir" in sys.argv
prop = None
for a_ in sys.argv:
    if a_.startswith("--prop="):
        prop = a_[7:]
param = None
for a_ in sys.argv:
    if a_.startswith("--param="):
        param = int(a_[8:])
insts = ops.FAMILIES[fam](vt, cfg)
ws = []
_seen = set()
for i in insts:
    if i.fname in _seen:
        continue
    _seen.add(i.fname)
    ws.append((i.fname, ops.wrapper_line(i), i.key(cfg, vt)))
tu = e3.TU(cfg, "%s.%s" % (vt.name, fam), ops.header(vt), ws)
js, missing = tu.build()
print("json:", js, "missing:", missing)
m = json.load(open(js))
I = irterm.Interp(m, isa.TABLE)
ll = open(os.path.join(os.path.dirname(js), "w.ll")).read()
for inst in insts:
    if sub and sub not in inst.fname:
        continue
    if param is not None and inst.param != param:
        continue
    f = m["functions"].get(inst.fname)
    if not f:
        print(inst.fname, "MISSING"); continue
    if showir:
        mm = re.search(r"define [^\n]*@%s\(.*?\n}\n" % re.escape(inst.fname), ll, re.S)
        print(mm.group(0) if mm else "?")
    ctx = runner.make_ctx(vt, inst, f)
    if getattr(inst, "subst", None):
        for nm, val in inst.subst.items():
            k = ctx.argidx[nm]
            ctx.argterms[k] = T.const(ctx.argterms[k][1], val)
            ctx.args[nm] = ctx.argterms[k]
    S = I.summarise(inst.fname, ctx.argterms, ctx.boolmem)
    ctx.summary = S
    print("==", inst.fname, S.flags, S.unknown)
    print("  actual  :", T.show(S.ret, 9, ctx.names) if S.ret is not None else None)
    if inst.expect:
        try:
            print("  expected:", T.show(inst.expect(ctx), 9, ctx.names))
        except Exception as e:
            print("  expected: EXC", e)
    for a in S.accesses:
        print("   ", a.kind, T.show(a.base, 4, ctx.names), a.off, a.size, "cond=", T.show(a.cond, 4, ctx.names), a.what, "sup" if a.suppressed else "", T.show(a.value, 4, ctx.names) if a.value else "")
    j = inst.judge or runner.judge_default
    if prop and getattr(inst, "judges", None) and inst.judges.get(prop):
        j = inst.judges[prop]
    print("  verdict :", j(ctx, inst, S))
