#!/usr/bin/env python3
"""Agreement self-test of lib/tcompile.py with term.ev: random terms (two arguments, shifts with run-time
amounts so that poison is reached, selects shielding poison, zero-undef counts, divisions, saturating ops,
float steps) and - with --catalogue - closed forms of wrappers from the operation catalogue.  The compiled
evaluator must return exactly what term.ev returns, or raise the same exception class."""
import os
import random
import sys

V = os.path.join(os.path.dirname(os.path.abspath(__file__)), "..")
sys.path[:0] = [os.path.join(V, "lib"), os.path.join(V, "spec"), os.path.join(V, "checks"), os.path.join(V, "bin")]
import term as T
import tcompile
from selftest_absint import rand_term as rt0


def rand_term(rnd, xs, depth):
    x = rnd.choice(xs)
    W = x[1]
    if depth == 0 or rnd.random() < 0.12:
        return x if rnd.random() < 0.75 else T.const(W, rnd.choice([0, 1, W, W - 1, (1 << W) - 1, rnd.getrandbits(W)]))
    k = rnd.randrange(16)
    a = rand_term(rnd, xs, depth - 1)
    b = rand_term(rnd, xs, depth - 1)
    if k == 0:
        return T.mk(rnd.choice(["shl", "lshr", "ashr", "shlsat", "lshrsat", "ashrsat"]), W, a,
                    T.nary("and", W, [b, T.const(W, 2 * W - 1)]))
    if k == 1:
        c = T.icmp(rnd.choice(["ult", "slt", "eq", "uge", "sge", "ne"]), b, T.const(W, rnd.choice([0, 1, W, W // 2])))
        return T.select(c, T.mk("shl", W, a, b), a)
    if k == 2:
        return T.mk(rnd.choice(["fshl", "fshr"]), W, a, b, rand_term(rnd, xs, 1))
    if k == 3:
        return T.mk(rnd.choice(["udiv", "urem", "sdiv", "srem"]), W, a, b)
    if k == 4:
        return T.mk("call:llvm.ctlz", W, a, T.const(1, 1))
    if k == 5:
        return T.mk(rnd.choice(["call:llvm.smin", "call:llvm.smax", "call:llvm.umax", "call:llvm.uadd.sat",
                                "call:llvm.sadd.sat", "call:llvm.ssub.sat"]), W, a, b)
    if k == 6 and W >= 16:
        h = W // 2
        return T.concat([T.mk("satus", h, a), T.mk("satss", h, b)])
    if k == 7:
        return T.mk("call:llvm.abs", W, a, T.const(1, rnd.randrange(2)))
    if k == 8 and W in (32, 64):
        return T.mk(rnd.choice(["fadd", "fsub", "fmul", "fdiv"]), W, a, b)
    if k == 9:
        bits = [T.slice_(a, i, 1) for i in rnd.sample(range(W), 3)]
        return T.zext(T.nary(rnd.choice(["and", "or"]), 1, bits + [T.icmp("ult", T.mk("shl", W, b, a), a)]), W)
    if k == 10:
        return T.mk("rep", W, T.slice_(a, rnd.randrange(W), 1))
    if k == 11:
        return T.mk("neg", W, a)
    return rt0(rnd, rnd.choice([a, b]), 1)


def rand_watch(rnd, t):
    """overflow flags on some two-operand add/sub/mul nodes of t (as irterm records them)"""
    w = {}
    seen = set()
    st = [t]
    while st:
        x = st.pop()
        if not isinstance(x, tuple) or id(x) in seen:
            continue
        seen.add(id(x))
        if x[0] in ("add", "sub", "mul") and len(x) == 4 and rnd.random() < 0.5:
            w[id(x)] = [(x[0], rnd.choice(["nsw", "nuw", "nswnuw"]), x[2], x[3], None)]
        st.extend(y for y in x[2:] if isinstance(y, tuple))
    return w


def same(t, env, watch=None):
    if watch:
        env = dict(env, watch=watch)
    try:
        r1 = ("v", T.ev(t, dict(env)))
    except T.Poison:
        r1 = ("poison",)
    except T.Uneval:
        r1 = ("uneval",)
    c = tcompile.compiled(t, watch)
    try:
        r2 = ("v", c.ev(dict(env)))
    except T.Poison:
        r2 = ("poison",)
    except T.Uneval:
        r2 = ("uneval",)
    return r1 == r2, r1, r2


def main():
    rnd = random.Random(int(sys.argv[1]) if len(sys.argv) > 1 and sys.argv[1].isdigit() else 11)
    n = bad = fast = 0
    iters = int(sys.argv[2]) if len(sys.argv) > 2 and sys.argv[2].isdigit() else 2500
    for it in range(iters):
        W = rnd.choice([8, 16, 32, 32, 64])
        T.reset()
        tcompile._cache.clear()
        xs = [T.arg(0, 0, W), T.arg(1, 0, W)]
        t = rand_term(rnd, xs, rnd.randrange(1, 5))
        watch = rand_watch(rnd, t) if it % 3 == 0 else None
        for _ in range(10):
            args = [rnd.choice([0, 1, W, (1 << W) - 1, 1 << (W - 1), rnd.getrandbits(W), rnd.getrandbits(W) & 0xFF]) for _ in xs]
            for rm in ("RN", "RD", "RU", "RZ") if T.has_fp(t) else ("RN",):
                ok, r1, r2 = same(t, {"args": args, "rm": rm}, watch)
                n += 1
                if not ok:
                    bad += 1
                    if bad < 8:
                        print("DISAGREE", T.show(t, 7), [hex(a) for a in args], rm, r1, r2)
    print("checked %d evaluations of random terms, %d disagreements" % (n, bad))
    if "--catalogue" in sys.argv:
        import json
        import common, e3, ops, isa, irterm, runner
        for cfgn, tn, fam in (("SSE2", "vec8x16i", "vdenom"), ("AVX2", "vec16x8u", "div"), ("SSE2", "vec4x32f", "cmathx"),
                              ("everything", "vec16x32f", "cmathx"), ("SSE2", "vec2x64i", "select"),
                              ("AVX2", "vec8x32u", "bitcount"), ("SSE2", "vec16x8u", "memory"), ("AVX2", "vec4x64f", "round")):
            cfg = common.config_by_name(cfgn)
            vt = runner._vt_by_name(tn)
            insts = ops.FAMILIES[fam](vt, cfg)
            ws, seen = [], set()
            for i in insts:
                if i.fname not in seen:
                    seen.add(i.fname)
                    ws.append((i.fname, ops.wrapper_line(i), i.key(cfg, vt)))
            js, missing = e3.TU(cfg, "%s.%s" % (vt.name, fam), ops.header(vt), ws).build()
            m = json.load(open(js))
            I = irterm.Interp(m, isa.TABLE)
            T.reset()
            tcompile._cache.clear()
            done = set()
            for inst in insts:
                f = m["functions"].get(inst.fname)
                if not f or f["decl"] or inst.fname in done:
                    continue
                done.add(inst.fname)
                ctx = runner.make_ctx(vt, inst, f)
                S = I.summarise(inst.fname, ctx.argterms, ctx.boolmem)
                if S.ret is None:
                    continue
                import lanecheck
                for args in lanecheck.gen_envs(ctx.argspecs, limit=40):
                    for rm in ("RN", "RD") if T.has_fp(S.ret) else ("RN",):
                        ok, r1, r2 = same(S.ret, {"args": args, "mem": lanecheck._mem_byte, "rm": rm})
                        n += 1
                        if not ok:
                            bad += 1
                            if bad < 8:
                                print("DISAGREE", cfgn, tn, inst.fname, [hex(a) for a in args], rm, r1, r2)
        print("with catalogue closed forms: %d evaluations, %d disagreements" % (n, bad))
    return 1 if bad else 0


if __name__ == "__main__":
    sys.exit(main())
