#!/usr/bin/env python3
"""Confirm a seeded change and run the property's check against it.
usage: seedtest.py <seed_out dir> <property> <name> [--tier quick|thorough] [--configs a,b]
Everything happens in a scratch worktree outside /repo and /verif, removed at the end."""
import json
import os
import re
import shutil
import subprocess
import sys
import tempfile

V = os.path.join(os.path.dirname(os.path.abspath(__file__)), "..")


def sh(cmd, **kw):
    return subprocess.run(cmd, stdout=subprocess.PIPE, stderr=subprocess.STDOUT, universal_newlines=True, **kw)


def run_demo(src_dir, wt, orig_root):
    cmd = open(os.path.join(src_dir, "demo_cmd.txt")).read()
    cmd = cmd.replace(orig_root + "/seed_out", src_dir).replace(orig_root, wt)
    cmd = re.sub(r"-I\s*<[^>]*>(/include)?", "-I%s/include" % wt, cmd)
    cmd = re.sub(r"<AVEL_ROOT>|<AVEL>|<root>|\$\{?AVEL_ROOT\}?", wt, cmd)
    # keep only shell lines
    lines = [l for l in cmd.splitlines() if l.strip() and not l.strip().startswith("#")]
    script = "set -e\ncd %s\n" % src_dir + "\n".join(lines) + "\n"
    r = sh(["bash", "-c", script])
    return r.returncode, r.stdout[-600:]


def main():
    src, prop, name = sys.argv[1], sys.argv[2], sys.argv[3]
    tier = "quick"
    extra = []
    orig = None
    args = sys.argv[4:]
    while args:
        a = args.pop(0)
        if a == "--tier":
            tier = args.pop(0)
        elif a == "--configs":
            extra += ["--configs", args.pop(0)]
        elif a == "--types":
            extra += ["--types", args.pop(0)]
        elif a == "--orig":
            orig = args.pop(0)
    orig_root = orig or os.path.dirname(os.path.abspath(src))
    dst = os.path.join(V, "seeded", name)
    os.makedirs(dst, exist_ok=True)
    for f in ([] if os.path.abspath(src) == os.path.abspath(dst) else os.listdir(src)):
        if os.path.isfile(os.path.join(src, f)) and not f.startswith(".") and os.path.getsize(os.path.join(src, f)) < 200000 \
                and f not in ("demo", "a.out"):
            shutil.copy(os.path.join(src, f), os.path.join(dst, f))
    wt = tempfile.mkdtemp(prefix="avel_seed_", dir="/tmp")
    os.rmdir(wt)
    meta = {"property": prop, "name": name, "ran": []}
    try:
        sh(["git", "-C", "/repo", "worktree", "add", "-q", "--detach", wt, "HEAD"])
        work = tempfile.mkdtemp(prefix="avel_demo_", dir="/tmp")
        for f in os.listdir(dst):
            shutil.copy(os.path.join(dst, f), work)
        rc0, out0 = run_demo(work, wt, orig_root)
        meta["demo_unchanged"] = {"exit": rc0, "tail": out0[-200:]}
        p = sh(["git", "-C", wt, "apply", os.path.join(dst, "patch.diff")])
        meta["patch_applies"] = p.returncode == 0
        if p.returncode != 0:
            meta["apply_error"] = p.stdout[-300:]
        rc1, out1 = run_demo(work, wt, orig_root)
        meta["demo_changed"] = {"exit": rc1, "tail": out1[-300:]}
        shutil.rmtree(work, ignore_errors=True)
        meta["confirmed"] = (rc0 == 0 and rc1 != 0 and meta["patch_applies"])
        env = dict(os.environ, AVEL_REPO=wt)
        cmd = ["python3", os.path.join(V, "bin", "check.py"), prop, "--tier", tier] + extra
        r = sh(cmd, env=env, cwd=V)
        viol = [l for l in r.stdout.splitlines() if l.startswith("VIOLATION")]
        inst = [l.strip() for l in r.stdout.splitlines() if l.strip().startswith(("instance:", "found:", "distinguishing"))][:6]
        brk = [l for l in r.stdout.splitlines() if l.startswith("ANALYSIS-BROKEN")][:3]
        meta["check"] = {"cmd": " ".join(cmd[1:]) + "  (AVEL_REPO=<scratch worktree with the patch applied>)",
                         "exit": r.returncode, "violations": len(viol), "report": inst, "analysis_broken": brk,
                         "detected": r.returncode == 1 and bool(viol)}
        meta["ran"] = ["scratch worktree of /repo HEAD outside /repo and /verif", "demo on unchanged tree (exit %d)" % rc0,
                       "git apply patch.diff", "demo on changed tree (exit %d)" % rc1, "check %s --tier %s (exit %d)" % (prop, tier, r.returncode),
                       "worktree removed"]
    finally:
        sh(["git", "-C", "/repo", "worktree", "remove", "--force", wt])
    notes = open(os.path.join(dst, "notes.txt")).read() if os.path.exists(os.path.join(dst, "notes.txt")) else ""
    meta["needs_to_manifest"] = notes[:1200]
    with open(os.path.join(dst, "meta.json"), "w") as fh:
        json.dump(meta, fh, indent=1)
    print(json.dumps({k: meta[k] for k in ("name", "confirmed", "demo_unchanged", "demo_changed", "check")}, indent=1))


if __name__ == "__main__":
    main()
