#!/usr/bin/env python3
"""Soundness self-test of lib/absint.py: for random terms over one argument and random abstract inputs,
every concrete value in the abstract input must evaluate (term.ev) to a value inside the abstract result."""
import os
import random
import sys

V = os.path.join(os.path.dirname(os.path.abspath(__file__)), "..")
sys.path[:0] = [os.path.join(V, "lib"), os.path.join(V, "spec")]
import term as T
import absint as A


def rand_av(rnd, W):
    kind = rnd.randrange(4)
    if kind == 0:
        h = rnd.randrange(W)
        M = (1 << W) - 1
        return A.AV(W, M & ~((1 << (h + 1)) - 1), 1 << h)
    if kind == 1:
        lo = rnd.getrandbits(W)
        hi = min((1 << W) - 1, lo + rnd.getrandbits(rnd.randrange(1, W)))
        return A.AV(W, 0, 0, lo, hi)
    if kind == 2:
        m = rnd.getrandbits(W)
        v = rnd.getrandbits(W)
        return A.AV(W, m & ~v, m & v)
    return A.const(W, rnd.getrandbits(W))


def sample(rnd, av):
    W = av.w
    for _ in range(200):
        v = rnd.randrange(av.lo, av.hi + 1)
        v = (v | av.o) & ~av.z
        if av.lo <= v <= av.hi:
            return v
    return None


def rand_term(rnd, x, depth):
    W = x[1]
    if depth == 0 or rnd.random() < 0.15:
        return x if rnd.random() < 0.7 else T.const(W, rnd.choice([0, 1, 2, (1 << W) - 1, rnd.getrandbits(W)]))
    k = rnd.randrange(19)
    a = rand_term(rnd, x, depth - 1)
    b = rand_term(rnd, x, depth - 1)
    if k == 16:
        return T.nary("and", W, [a, T.op("neg", W, a)])
    if k == 17:
        i = rnd.randrange(W)
        iso = T.nary("and", 1, [T.slice_(a, i, 1), T.slice_(T.op("neg", W, a), i, 1)])
        return T.concat([iso, T.const(W - 1, 0)])
    if k == 18:
        i = rnd.randrange(W)
        p1 = T.nary("add", W, [a, T.const(W, 1)])
        if rnd.random() < 0.5:
            return T.nary("and", W, [T.not_(a), p1])
        iso = T.nary("and", 1, [T.not_(T.slice_(a, i, 1)), T.slice_(p1, i, 1)])
        return T.concat([iso, T.const(W - 1, 0)])
    if k == 0:
        return T.nary("and", W, [a, b])
    if k == 1:
        return T.nary("or", W, [a, b])
    if k == 2:
        return T.nary("xor", W, [a, b])
    if k == 3:
        return T.nary("add", W, [a, b])
    if k == 4:
        return T.sub(a, b)
    if k == 5:
        return T.not_(a)
    if k == 6:
        n = rnd.randrange(1, W)
        return T.concat([T.slice_(a, n, W - n), T.const(n, 0)])
    if k == 7:
        n = rnd.randrange(1, W)
        return T.concat([T.const(n, 0), T.slice_(a, 0, W - n)])
    if k == 8:
        return T.select(T.icmp(rnd.choice(["eq", "ne", "ult", "ugt", "slt", "sgt", "ule", "uge"]), a, b), a, b)
    if k == 9:
        return T.op("call:llvm.ctlz", W, a, T.const(1, 0))
    if k == 10:
        return T.op("call:llvm.cttz", W, a, T.const(1, 0))
    if k == 11:
        return T.op("call:llvm.ctpop", W, a)
    if k == 12:
        return T.op("call:llvm.umin", W, a, b)
    if k == 13:
        return T.op("call:llvm.usub.sat", W, a, b)
    if k == 14 and W == 32:
        f = T.op(rnd.choice(["sitofp", "uitofp"]), 32, a)
        f = T.op("fadd", 32, f, T.const(32, rnd.choice([0x3F000000, 0x3F800000, 0x4B000000])))
        return T.concat([T.slice_(f, 23, 9), T.const(23, 0)])
    if k == 15:
        return T.op("spec:bit_floor", W, a) if rnd.random() < 0.5 else T.op("spec:bit_ceil", W, a)
    return T.nary("mul", W, [a, T.const(W, rnd.randrange(1, 9))])


def main():
    rnd = random.Random(int(sys.argv[1]) if len(sys.argv) > 1 else 7)
    bad = 0
    n = 0
    for it in range(int(sys.argv[2]) if len(sys.argv) > 2 else 3000):
        W = rnd.choice([8, 16, 32, 32, 64])
        T.reset()
        x = T.arg(0, 0, W)
        t = rand_term(rnd, x, rnd.randrange(1, 5))
        av = rand_av(rnd, W)
        r = A.Interp({0: (0, W, av)}).ev(t)
        for _ in range(12):
            v = sample(rnd, av)
            if v is None:
                continue
            for rm in ("RN", "RD", "RU", "RZ"):
                try:
                    c = T.ev(t, {"args": [v], "rm": rm})
                except (T.Poison, T.Uneval):
                    continue
                n += 1
                if not (r.lo <= c <= r.hi and (c & r.z) == 0 and (c & r.o) == r.o):
                    bad += 1
                    if bad < 8:
                        print("UNSOUND", T.show(t, 6), av, "x=%#x" % v, "concrete=%#x" % c, r, rm)
    print("checked %d evaluations, %d outside the abstract result" % (n, bad))
    return 1 if bad else 0


if __name__ == "__main__":
    sys.exit(main())
