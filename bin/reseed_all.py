#!/usr/bin/env python3
"""Regression run of the checker against every kept seeded change (seeded/agent*): each patch is applied in a
scratch worktree outside /repo and /verif and the check of its property is run - restricted, when the change
was reported before, to the configuration and type of the recorded report (a full quick run otherwise).
Writes seeded/regression.json: name, property, exit code, reported (VIOLATION) or not, first instance.
usage: reseed_all.py [name-substring ...]"""
import json
import glob
import os
import re
import subprocess
import sys
import tempfile

V = os.path.join(os.path.dirname(os.path.abspath(__file__)), "..")


def sh(cmd, **kw):
    return subprocess.run(cmd, stdout=subprocess.PIPE, stderr=subprocess.STDOUT, universal_newlines=True, **kw)


def main():
    only = sys.argv[1:]
    out = []
    for d in sorted(glob.glob(os.path.join(V, "seeded", "agent*"))):
        name = os.path.basename(d)
        if only and not any(o in name for o in only):
            continue
        mf = os.path.join(d, "meta.json")
        if not os.path.exists(mf) or not os.path.exists(os.path.join(d, "patch.diff")):
            continue
        meta = json.load(open(mf))
        prop = meta["property"]
        extra = []
        rep = " ".join(meta.get("check", {}).get("report", [])[:1])
        m1 = re.search(r"cfg=(\S+)", rep)
        m2 = re.search(r"type=(\S+)", rep)
        if meta.get("check", {}).get("detected") and m1 and not m1.group(1).startswith("alone:") and prop not in ("C18", "C19", "C20"):
            extra += ["--configs", m1.group(1)]
            if m2 and m2.group(1).startswith("vec"):
                extra += ["--types", m2.group(1)]
        wt = tempfile.mkdtemp(prefix="avel_reg_", dir="/tmp")
        os.rmdir(wt)
        rec = {"name": name, "property": prop, "filter": extra}
        try:
            sh(["git", "-C", "/repo", "worktree", "add", "-q", "--detach", wt, "HEAD"])
            p = sh(["git", "-C", wt, "apply", os.path.join(d, "patch.diff")])
            if p.returncode != 0:
                rec["error"] = "patch does not apply to the current /repo HEAD: " + p.stdout[-200:]
            else:
                r = sh(["python3", os.path.join(V, "bin", "check.py"), prop, "--tier", "quick"] + extra,
                       env=dict(os.environ, AVEL_REPO=wt), cwd=V)
                lines = r.stdout.splitlines()
                viol = [l for l in lines if l.startswith("VIOLATION")]
                inst = [l.strip() for l in lines if l.strip().startswith("instance:")][:1]
                rec.update({"exit": r.returncode, "reported": r.returncode == 1 and bool(viol), "first_instance": inst,
                            "analysis_broken": [l[:200] for l in lines if l.startswith("ANALYSIS-BROKEN")][:1]})
        finally:
            sh(["git", "-C", "/repo", "worktree", "remove", "--force", wt])
        out.append(rec)
        print("%-14s %-4s exit=%s reported=%s %s" % (name, prop, rec.get("exit"), rec.get("reported"), (rec.get("first_instance") or [""])[0][:90]))
        sys.stdout.flush()
    if not only:
        with open(os.path.join(V, "seeded", "regression.json"), "w") as fh:
            json.dump(out, fh, indent=1)
    bad = [o for o in out if not o.get("reported")]
    print("%d seeded changes, %d reported, %d not: %s" % (len(out), len(out) - len(bad), len(bad), [o["name"] for o in bad]))


if __name__ == "__main__":
    main()
