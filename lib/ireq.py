"""A-ireq: equality of two optimised function bodies as dataflow/control-flow
graphs modulo value names, block order and bitcast placement.

Each instruction gets a hash of (opcode, flags, result bit width, ordered
operand hashes); phi and branch targets are resolved by iterating the
refinement (bisimulation on the CFG + dataflow graph).  Two functions whose
return values (and store multisets) have equal hashes have the same infinite
unfolding, hence compute the same function.  Unequal => undecided."""
import hashlib


def _h(*xs):
    m = hashlib.sha256()
    for x in xs:
        m.update(str(x).encode())
        m.update(b"\x1f")
    return m.hexdigest()[:20]


def _const_key(c):
    k = c["k"]
    if k in ("ci", "cf"):
        return "%s:%d:%d" % (k, c["bits"], c["v"])
    if k == "cz":
        return "z:%d" % c["t"].get("bits", 0)
    if k == "cu":
        return "u:%d" % c["t"].get("bits", 0)
    if k == "cv":
        # as a flat little-endian bit pattern when all elements are int/fp constants
        v = 0
        pos = 0
        for e in c["e"]:
            if e["k"] in ("ci", "cf"):
                v |= e["v"] << pos
                pos += e["bits"]
            elif e["k"] == "cu":
                pos += e["t"].get("bits", 0)
            else:
                return "cv:" + ",".join(_const_key(x) for x in c["e"])
        return "bits:%d:%d" % (pos, v)
    if k in ("g", "f"):
        return k + ":" + c["name"]
    if k == "cn":
        return "null"
    if k == "ce":
        return "ce:%s(%s)" % (c["op"], ",".join(_const_key(o) for o in c["ops"]))
    return k


def signature(f, rounds=None):
    """returns (ret_hash, sorted store hashes, n instructions)"""
    insts = {}
    order = []
    blk_of = {}
    for b in f["blocks"]:
        for i in b["insts"]:
            insts[i["id"]] = i
            order.append(i["id"])
            blk_of[i["id"]] = b["id"]
    nb = len(f["blocks"])
    rounds = rounds or (nb + 3)
    ih = {i: "0" for i in insts}
    bh = {b["id"]: "B" for b in f["blocks"]}

    def vh(v):
        k = v["k"]
        if k == "i":
            i = insts[v["id"]]
            if i["op"] == "bitcast":
                return vh(i["ops"][0])
            return ih[v["id"]]
        if k == "a":
            return "arg%d" % v["n"]
        if k == "b":
            return bh[v["id"]]
        if k == "cv" or k in ("ci", "cf", "cz", "cu", "cn", "g", "f", "ce"):
            ck = _const_key(v)
            if ck.startswith("z:"):
                return "bits:%s:0" % ck[2:]
            if k in ("ci", "cf"):
                return "bits:%d:%d" % (v["bits"], v["v"])
            return ck
        return k
    for r in range(rounds):
        nih = {}
        for iid in order:
            i = insts[iid]
            op = i["op"]
            bits = i["t"].get("bits", 0)
            extra = [i.get("pred"), i.get("nsw"), i.get("nuw"), i.get("exact"), i.get("fmf"), i.get("callee"),
                     i.get("mask"), i.get("align") if op in ("load", "store") else None, i.get("coff"), i.get("idx")]
            if op == "phi":
                inc = sorted(_h(vh(v), bh[b]) for v, b in i["inc"])
                nih[iid] = _h("phi", bits, inc)
            elif op in ("add", "mul", "and", "or", "xor", "fadd", "fmul"):
                lane = i["t"].get("eb") if op in ("add", "mul", "fadd", "fmul") else 0
                nih[iid] = _h(op, bits, lane, extra, sorted(vh(o) for o in i["ops"]))
            elif op == "getelementptr":
                nih[iid] = _h(op, extra, vh(i["ops"][0]), [(s_, vh(v)) for s_, v in i["terms"]])
            elif op == "switch":
                nih[iid] = _h(op, vh(i["ops"][0]), sorted((c, bh[b]) for c, b in i["cases"]), bh[i["default"]])
            else:
                lane = i["t"].get("eb") if i["t"].get("n") else 0
                if op in ("shufflevector", "extractelement", "insertelement", "icmp", "fcmp", "sub", "shl", "lshr",
                          "ashr", "select", "zext", "sext", "trunc", "call", "sitofp", "uitofp", "fptosi", "fptoui",
                          "fsub", "fdiv", "udiv", "sdiv", "urem", "srem"):
                    src = i["ops"][0].get("t") if i["ops"] else None
                    nih[iid] = _h(op, bits, lane, extra, [vh(o) for o in i["ops"]])
                else:
                    nih[iid] = _h(op, bits, extra, [vh(o) for o in i["ops"]])
        ih = nih
        nbh = {}
        for b in f["blocks"]:
            t = b["insts"][-1]
            nbh[b["id"]] = _h("blk", ih[t["id"]], sorted(ih[x["id"]] for x in b["insts"] if x["op"] in ("store", "call")))
        bh = nbh
    ret = None
    stores = []
    for iid in order:
        i = insts[iid]
        if i["op"] == "ret":
            ret = _h("ret", ih[iid], bh[blk_of[iid]]) if ret is None else _h(ret, ih[iid])
        if i["op"] == "store" or (i["op"] == "call" and not i.get("readnone")):
            stores.append(ih[iid])
    return ret, sorted(stores), len(order)


def equal(f1, f2):
    a = signature(f1)
    b = signature(f2)
    return a[0] == b[0] and a[1] == b[1]
