"""Straight-line compilation of closed forms (term DAGs) for repeated evaluation.

term.ev interprets a term recursively with a memo table; the witness searches and truth tables evaluate
the same two closed forms on hundreds to tens of thousands of points, so the DAG is translated once into
one Python function with one local variable per node.  The translation is *only* an accelerator of
term.ev: every operator either has an inline translation below that mirrors term._ev, or is evaluated by
calling term._ev on that node.  Whenever the fast path cannot vouch for its result - a node is undefined
(poison), unevaluable, or anything raises - the point is re-evaluated by term.ev itself, whose answer
(value, Poison or Uneval) is the one returned.  Laziness of `select` (a poison value in the branch not
taken is harmless) is kept by an undefined-marker object that raises as soon as it is used.

bin/selftest_tcompile.py checks agreement of the two evaluators on random terms and on closed forms of the
catalogue."""
import term as T
import fpeval


class _Undef:
    """marker for a poison / unevaluable node on the fast path; any use raises _Slow"""
    __slots__ = ()

    def _r(self, *a):
        raise _Slow()
    __bool__ = __eq__ = __ne__ = __lt__ = __le__ = __gt__ = __ge__ = __index__ = __int__ = _r
    __add__ = __radd__ = __sub__ = __rsub__ = __mul__ = __rmul__ = __and__ = __rand__ = _r
    __or__ = __ror__ = __xor__ = __rxor__ = __lshift__ = __rlshift__ = __rshift__ = __rrshift__ = _r
    __neg__ = __invert__ = __floordiv__ = __rfloordiv__ = __mod__ = __rmod__ = __hash__ = _r


class _Slow(Exception):
    pass


U = _Undef()


def _fb(t, env, kids, vals):
    """generic node: term._ev with the children's values already in the memo"""
    memo = {}
    for k, v in zip(kids, vals):
        if v is U:
            raise _Slow()
        memo[k] = v
    try:
        return T._ev(t, env, memo)
    except T.Uneval:
        return U


def _clz(v, w):
    return w - v.bit_length()


def _ctz(v, w):
    return w if v == 0 else (v & -v).bit_length() - 1


_SIMPLE_FP = {"fadd": "add", "fsub": "add", "fmul": "mul", "fdiv": "div"}


def _ovf(opn, flags, x, y, w, loc):
    """an overflow-flagged (nsw/nuw) operation overflows here: the point goes to term.ev, which knows
    whether the operation is actually reached (select is lazy) and words the Poison message"""
    try:
        T._check_overflow(opn, flags, x, y, w, loc)
    except T.Poison:
        raise _Slow()


class Compiled:
    def __init__(self, t, max_nodes=400000, watch=None):
        self.t = t
        self.fn = None
        self.n = 0
        self.watch = watch
        try:
            self._build(t, max_nodes)
        except _TooMany:
            self.fn = None

    # -------------------------------------------------------------- translation
    def _build(self, root, max_nodes):
        order = []
        seen = {}
        stack = [(root, False)]
        watch = self.watch or {}
        if watch:
            # operands of the overflow-flagged operations inside this closed form must be computed too
            inside = set()
            st = [root]
            while st:
                x = st.pop()
                if id(x) in inside:
                    continue
                inside.add(id(x))
                st.extend(self._kids(x))
            extra = []
            for k, lst in watch.items():
                if k in inside:
                    for opn, flags, a, b, loc in lst:
                        extra += [a, b]
            stack = [(x, False) for x in extra] + stack
            watch = {k: v for k, v in watch.items() if k in inside}
        while stack:
            x, done = stack.pop()
            if id(x) in seen:
                continue
            if done:
                seen[id(x)] = len(order)
                order.append(x)
                continue
            if len(order) + len(stack) > max_nodes * 3:
                raise _TooMany()
            stack.append((x, True))
            for y in self._kids(x):
                if id(y) not in seen:
                    stack.append((y, False))
        if len(order) > max_nodes:
            raise _TooMany()
        self.n = len(order)
        consts = {}
        lines = ["def f(args, mem, rm, env):"]
        ap = lines.append

        def v(x):
            if x[0] == "const":
                return repr(x[2])
            return "v%d" % seen[id(x)]

        for i, x in enumerate(order):
            o, w = x[0], x[1]
            M = (1 << w) - 1
            d = "v%d" % i
            if o == "const":
                continue
            if o == "arg":
                if x[3]:
                    ap(" %s = (args[%d] >> %d) & %d" % (d, x[2], x[3], M))
                else:
                    ap(" %s = args[%d] & %d" % (d, x[2], M))
            elif o == "concat":
                parts = []
                pos = 0
                for p in x[2:]:
                    parts.append("(%s << %d)" % (v(p), pos) if pos else v(p))
                    pos += p[1]
                ap(" %s = %s" % (d, " | ".join(parts)))
            elif o == "slice":
                ap(" %s = (%s >> %d) & %d" % (d, v(x[2]), x[3], M))
            elif o == "rep":
                ap(" %s = %d if %s else 0" % (d, M, v(x[2])))
            elif o == "not":
                ap(" %s = ~%s & %d" % (d, v(x[2]), M))
            elif o in ("and", "or", "xor"):
                sym = {"and": " & ", "or": " | ", "xor": " ^ "}[o]
                ap(" %s = %s" % (d, sym.join(v(y) for y in x[2:])))
            elif o in ("add", "mul"):
                sym = " + " if o == "add" else " * "
                ap(" %s = (%s) & %d" % (d, sym.join(v(y) for y in x[2:]), M))
            elif o == "sub":
                ap(" %s = (%s - %s) & %d" % (d, v(x[2]), v(x[3]), M))
            elif o == "neg":
                ap(" %s = -%s & %d" % (d, v(x[2]), M))
            elif o == "icmp":
                p, a, b = x[2], v(x[3]), v(x[4])
                ww = x[3][1]
                if p[0] == "s":
                    S = 1 << (ww - 1)
                    a = "((%s ^ %d) - %d)" % (a, S, S)
                    b = "((%s ^ %d) - %d)" % (b, S, S)
                sym = {"eq": "==", "ne": "!=", "lt": "<", "le": "<=", "gt": ">", "ge": ">="}[p if p in ("eq", "ne") else p[1:]]
                ap(" %s = 1 if %s %s %s else 0" % (d, a, sym, b))
            elif o == "select":
                ap(" %s = %s if %s else %s" % (d, v(x[3]), v(x[2]), v(x[4])))
            elif o in ("shl", "lshr", "ashr", "shlsat", "lshrsat", "ashrsat"):
                sat = o.endswith("sat")
                kind = o[:-3] if sat else o
                xx, a = v(x[2]), v(x[3])
                if kind == "shl":
                    body = "(%s << %s) & %d" % (xx, a, M)
                elif kind == "lshr":
                    body = "%s >> %s" % (xx, a)
                else:
                    S = 1 << (w - 1)
                    body = "(((%s ^ %d) - %d) >> %s) & %d" % (xx, S, S, a, M)
                if not sat:
                    over = "U"
                elif kind == "ashr":
                    over = "(%d if %s >> %d else 0)" % (M, xx, w - 1)
                else:
                    over = "(%s & 0)" % xx          # (strict in the shifted operand, like term.ev)
                ap(" %s = (%s) if %s < %d else %s" % (d, body, a, w, over))
            elif o in ("fshl", "fshr"):
                a, b, c = v(x[2]), v(x[3]), v(x[4])
                ap(" c_ = %s %% %d" % (c, w))
                if o == "fshl":
                    ap(" %s = ((((%s << %d) | %s) >> (%d - c_)) & %d) if c_ else (%s | (%s & 0))" % (d, a, w, b, w, M, a, b))
                else:
                    ap(" %s = (((%s << %d) | %s) >> c_) & %d" % (d, a, w, b, M))
            elif o == "popsum":
                terms = [repr(x[2])] + ["%d * %s" % (m, v(b)) if m != 1 else v(b) for b, m in T.popsum_items(x)]
                ap(" %s = (%s) & %d" % (d, " + ".join(terms), M))
            elif o in ("satus", "satss"):
                ww = x[2][1]
                S = 1 << (ww - 1)
                sx = "((%s ^ %d) - %d)" % (v(x[2]), S, S)
                if o == "satus":
                    ap(" %s = max(0, min(%s, %d))" % (d, sx, M))
                else:
                    ap(" %s = max(%d, min(%s, %d)) & %d" % (d, -(1 << (w - 1)), sx, (1 << (w - 1)) - 1, M))
            elif o == "call:llvm.fabs":
                ap(" %s = %s & %d" % (d, v(x[2]), M >> 1))
            elif o == "call:llvm.ctpop":
                ap(" %s = bin(%s).count('1')" % (d, v(x[2])))
            elif o in ("call:llvm.ctlz", "call:llvm.cttz") and (len(x) == 3 or (x[3][0] == "const")):
                zu = len(x) > 3 and x[3][2]
                fnn = "_clz" if o.endswith("ctlz") else "_ctz"
                if zu:
                    ap(" %s = %s(%s, %d) if %s else U" % (d, fnn, v(x[2]), w, v(x[2])))
                else:
                    ap(" %s = %s(%s, %d)" % (d, fnn, v(x[2]), w))
            elif o in ("call:llvm.umin", "call:llvm.umax"):
                ap(" %s = %s(%s, %s)" % (d, "min" if o.endswith("min") else "max", v(x[2]), v(x[3])))
            elif o in ("call:llvm.smin", "call:llvm.smax"):
                S = 1 << (w - 1)
                ap(" %s = %s((%s ^ %d) - %d, (%s ^ %d) - %d) & %d" % (
                    d, "min" if o.endswith("min") else "max", v(x[2]), S, S, v(x[3]), S, S, M))
            elif o == "call:llvm.uadd.sat":
                ap(" %s = min(%s + %s, %d)" % (d, v(x[2]), v(x[3]), M))
            elif o == "call:llvm.usub.sat":
                ap(" %s = max(%s - %s, 0)" % (d, v(x[2]), v(x[3])))
            elif o in _SIMPLE_FP and w in (32, 64):
                extra = ", sub=True" if o == "fsub" else ""
                ap(" %s = fp_%s(%s, %s, %d, rm%s)" % (d, _SIMPLE_FP[o], v(x[2]), v(x[3]), w, extra))
            elif o.startswith("fr:") and o.split(":", 2)[2] in _SIMPLE_FP and w in (32, 64):
                _, frm, oo = o.split(":", 2)
                extra = ", sub=True" if oo == "fsub" else ""
                ap(" %s = fp_%s(%s, %s, %d, %r%s)" % (d, _SIMPLE_FP[oo], v(x[2]), v(x[3]), w, frm, extra))
            elif o == "fcmp":
                ap(" %s = 1 if _fcmp(%r, %s, %s, %d) else 0" % (d, x[2], v(x[3]), v(x[4]), x[3][1]))
            elif o == "x86.permx":
                ap(" %s = (%s >> ((%s & %d) * %d)) & %d" % (d, v(x[2]), v(x[3]), x[2][1] // w - 1, w, M))
            elif o == "x86.pshufb":
                ap(" c_ = %s" % v(x[3]))
                ap(" %s = (%s & 0) if c_ & 128 else (%s >> ((c_ & 15) * 8)) & 255" % (d, v(x[2]), v(x[2])))
            elif o in ("udiv", "urem"):
                ap(" %s = (%s %s %s) if %s else (U if %s & 0 else U)" % (d, v(x[2]), "//" if o == "udiv" else "%", v(x[3]), v(x[3]), v(x[2])))
            else:
                kids = [y for y in x[2:] if isinstance(y, tuple)]
                cn = "t%d" % i
                consts[cn] = x
                kn = "k%d" % i
                consts[kn] = tuple(id(y) for y in kids)
                ap(" %s = _fb(%s, env, %s, (%s))" % (d, cn, kn, "".join(v(y) + ", " for y in kids)))
            if id(x) in watch and o != "const":
                for wi, (opn, flags, a_, b_, loc) in enumerate(watch[id(x)]):
                    ap(" _ovf(%r, %r, %s, %s, %d, %r)" % (opn, tuple(flags) if not isinstance(flags, str) else flags,
                                                       v(a_), v(b_), a_[1], loc))
        ap(" return %s" % v(root))
        g = {"U": U, "_fb": _fb, "_ovf": _ovf, "_fcmp": T.eval_fcmp, "_clz": _clz, "_ctz": _ctz, "fp_add": fpeval.add, "fp_mul": fpeval.mul,
             "fp_div": fpeval.div}
        g.update(consts)
        exec(compile("\n".join(lines), "<closed form>", "exec"), g)
        self.fn = g["f"]

    @staticmethod
    def _kids(x):
        if x[0] in ("const", "arg"):
            return ()
        return [y for y in x[2:] if isinstance(y, tuple)]

    # -------------------------------------------------------------- evaluation
    def ev(self, env):
        """same contract as term.ev(self.t, env): value, or raises T.Poison / T.Uneval"""
        if self.fn is not None and (env.get("watch") is None or env.get("watch") is self.watch) and not env.get("daz"):
            try:
                r = self.fn(env["args"], env.get("mem"), env.get("rm", "RN"), env)
                if r is not U:
                    return r
            except Exception:      # anything unexpected on the fast path: term.ev decides
                pass
        return T.ev(self.t, env)


class _TooMany(Exception):
    pass


_cache = {}


def compiled(t, watch=None):
    """memoised per term identity (terms are interned; the cache is dropped with T.reset())"""
    key = (id(t), id(watch) if watch else 0)
    c = _cache.get(key)
    if c is None or c.t is not t or c.watch is not (watch or None):
        c = Compiled(t, watch=watch or None)
        if len(_cache) > 64:
            _cache.clear()
        _cache[key] = c
    return c
