"""Abstract interpretation of one LLVM function (JSON from irdump) into the
term domain of term.py: a closed-form summary of the returned value and the
list of memory accesses.  Acyclic control flow is if-converted (phi ->
select on edge conditions); loops make the summary opaque.

Nothing is executed: every instruction is mapped to the term that denotes
its LangRef / SDM meaning.
"""
import re

from term import *  # noqa
import term as T


class Access:
    __slots__ = ("kind", "base", "off", "size", "cond", "value", "align", "suppressed",
                 "what", "loc", "lanecond")

    def __init__(self, kind, base, off, size, cond, value, align, suppressed, what, loc=None):
        self.kind = kind            # 'r' / 'w'
        self.base = base            # pointer term without constant part
        self.off = off              # python int byte offset
        self.size = size            # bytes
        self.cond = cond            # 1-bit term: access happens iff cond
        self.value = value          # stored term (w) / None
        self.align = align
        self.suppressed = suppressed  # faults suppressed for masked-off elements
        self.what = what            # instruction / intrinsic name
        self.loc = loc


class Summary:
    def __init__(self):
        self.ret = None
        self.accesses = []
        self.flags = set()
        self.unknown = []      # unknown callee / intrinsic names
        self.calls = []        # (name, [arg terms]) of non-intrinsic calls
        self.poison_flags = []  # instructions carrying nsw/nuw/exact
        self.flagged = []       # (result lane term, op, flags, a lane, b lane, loc)
        self.oblig = []         # (kind, block cond, detail, terms..., loc): UB obligations per instruction
        self.ninst = 0
        self.insts = []        # opcode histogram source
        self.effects = []      # ('ldmxcsr', term), ('prefetch', ...) ...


def split_addr(t):
    """64-bit address term -> (base term, const byte offset)"""
    if t[0] == "add":
        cs = [x for x in t[2:] if x[0] == "const"]
        if cs:
            c = cs[0][2]
            if c >> 63:
                c -= 1 << 64
            rest = [x for x in t[2:] if x is not cs[0]]
            base = rest[0] if len(rest) == 1 else T.nary("add", 64, rest)
            return base, c
    if t[0] == "const":
        return T.const(64, 0), t[2]
    return t, 0


def _strip_suffix(name):
    """llvm.ctpop.v4i32 -> llvm.ctpop ; keep x86 names intact"""
    if name.startswith("llvm.x86."):
        return name
    parts = name.split(".")
    while len(parts) > 2 and re.fullmatch(r"(v\d+)?(i\d+|f32|f64|f16|p0[a-z0-9]*)", parts[-1]):
        parts.pop()
    return ".".join(parts)


LANEWISE_INTR = {
    "llvm.ctpop": 1, "llvm.bswap": 1, "llvm.bitreverse": 1,
    "llvm.umin": 2, "llvm.umax": 2, "llvm.smin": 2, "llvm.smax": 2,
    "llvm.uadd.sat": 2, "llvm.usub.sat": 2, "llvm.sadd.sat": 2, "llvm.ssub.sat": 2,
    "llvm.sqrt": 1, "llvm.fabs": 1, "llvm.ceil": 1, "llvm.floor": 1, "llvm.trunc": 1,
    "llvm.rint": 1, "llvm.nearbyint": 1, "llvm.round": 1, "llvm.roundeven": 1,
    "llvm.copysign": 2, "llvm.fma": 3, "llvm.fmuladd": 3, "llvm.minnum": 2,
    "llvm.maxnum": 2, "llvm.minimum": 2, "llvm.maximum": 2,
}
LANEWISE_FLAG = {"llvm.ctlz": 1, "llvm.cttz": 1, "llvm.abs": 1}   # extra scalar i1 operand
LIBM_PURE = {"ceilf", "ceil", "floorf", "floor", "truncf", "trunc", "roundf", "round",
             "nearbyintf", "nearbyint", "rintf", "rint", "sqrtf", "sqrt", "fabsf", "fabs",
             "fmodf", "fmod", "frexpf", "frexp", "ldexpf", "ldexp", "scalbnf", "scalbn",
             "ilogbf", "ilogb", "logbf", "logb", "copysignf", "copysign", "fmaxf", "fmax",
             "fminf", "fmin", "fdimf", "fdim", "fmaf", "fma"}


# C library functions whose meaning is that of the LLVM intrinsic of the same
# name (the width-1 / scalar code forwards to them)
LIBM_AS_INTR = {}
for _n in ("sqrt", "fabs", "ceil", "floor", "trunc", "rint", "nearbyint", "round", "copysign", "fma"):
    LIBM_AS_INTR[_n] = "llvm." + _n
    LIBM_AS_INTR[_n + "f"] = "llvm." + _n
# nearbyint and rint return the same value (they differ only in raising FE_INEXACT)
LIBM_AS_INTR["nearbyint"] = LIBM_AS_INTR["nearbyintf"] = "llvm.rint"


def malloc_result(name, args):
    """pointer returned by malloc & co.: suitably aligned for any fundamental type
    (alignof(max_align_t) == 16 on x86-64): the low 4 bits are zero"""
    return T.concat([T.const(4, 0), T.opaque(60, "call:" + name, *args)])


# C library functions that are the reference for the C12 specifications
C_SPEC2 = {"fmax": "fmax", "fmaxf": "fmax", "fmin": "fmin", "fminf": "fmin", "fdim": "fdim", "fdimf": "fdim",
           "ldexp": "ldexp", "ldexpf": "ldexp", "scalbn": "ldexp", "scalbnf": "ldexp"}
C_SPEC1 = {"ilogb": "ilogb", "ilogbf": "ilogb", "logb": "logb", "logbf": "logb"}


class Interp:
    def __init__(self, module, isa=None):
        self.m = module
        self.isa = isa or {}
        self.gcache = {}

    # ------------------------------------------------------------ constants
    def const_term(self, c):
        k = c["k"]
        if k == "ci":
            return T.const(c["bits"], c["v"])
        if k == "cf":
            if c["bits"] == 80:
                import fpeval
                v = fpeval.from_x87(c["v"])
                if v is None:
                    return T.opaque(80, "x87-unnormal-const")
                return T.const(80, v)
            return T.const(c["bits"], c["v"])
        if k == "cz":
            return T.const(c["t"]["bits"], 0)
        if k == "cu":
            return T.undef(c["t"]["bits"])
        if k == "cn":
            return T.const(64, 0)
        if k == "cv":
            return T.concat([self.const_term(e) for e in c["e"]])
        if k == "g":
            return T.mk("global", 64, c["name"])
        if k == "f":
            return T.mk("func", 64, c["name"])
        if k == "ce":
            ops = [self.const_term(o) for o in c["ops"]]
            if c["op"] == "getelementptr" and "coff" in c:
                return T.add(ops[0], T.const(64, c["coff"]))
            if c["op"] in ("bitcast", "inttoptr", "ptrtoint", "addrspacecast"):
                return ops[0]
            return T.opaque(c["t"].get("bits", 64), "constexpr:" + c["op"], *ops)
        return T.opaque(c.get("t", {}).get("bits", 64), "const?")

    def global_bytes(self, name):
        """constant global's initialiser as a term (for table lookups)"""
        if name in self.gcache:
            return self.gcache[name]
        g = self.m["globals"].get(name)
        r = None
        if g and g.get("const") and "init" in g:
            r = self.const_term(g["init"])
        self.gcache[name] = r
        return r

    # ------------------------------------------------------------ function
    def summarise(self, fname, argterms=None, boolmem=(), unroll=True):
        self.boolmem = set(boolmem)
        f = self.m["functions"][fname]
        S = Summary()
        if f["decl"]:
            S.flags.add("declaration")
            return S
        args = []
        for k, a in enumerate(f["args"]):
            w = a["t"].get("bits", 64)
            if argterms and k < len(argterms) and argterms[k] is not None:
                assert argterms[k][1] == w, (fname, k, argterms[k][:2], w)
                args.append(argterms[k])
            else:
                args.append(T.arg(k, 0, w))
        blocks = f["blocks"]
        nb = len(blocks)
        # successors / back-edge detection
        succ = {}
        for b in blocks:
            t = b["insts"][-1]
            s = []
            if t["op"] == "br":
                s = [o["id"] for o in t["ops"] if o["k"] == "b"]
            elif t["op"] == "switch":
                s = [c[1] for c in t["cases"]] + [t["default"]]
            succ[b["id"]] = s
        order, loop = _topo(nb, succ)
        loops = None
        if loop and unroll:
            loops = _natural_loops(nb, succ, order)
        if loop and loops is None:
            S.flags.add("loop")
        vals = {}
        bcond = {0: T.const(1, 1)}
        econd = {}   # (from, to) -> cond
        self._S = S
        self._vals = vals
        self._args = args
        bmap = {b["id"]: b for b in blocks}
        opaque_phis = loop and loops is None
        defblock = {}
        for b in blocks:
            for ins in b["insts"]:
                if "id" in ins:
                    defblock[ins["id"]] = b["id"]

        def do_block(bid, phi_from=None):
            """interpret one block.  phi_from: None = every incoming edge seen so far; a set = only those
            predecessors; 'preset' = phi values were already assigned (loop header, iteration >= 1)"""
            b = bmap[bid]
            if bid not in bcond:
                inc = [econd[(p, bid)] for p in range(nb) if (p, bid) in econd]
                if not inc:
                    bcond[bid] = T.const(1, 0)
                else:
                    c = inc[0]
                    for x in inc[1:]:
                        c = T.or_(c, x)
                    bcond[bid] = c
            cond = bcond[bid]
            for ins in b["insts"]:
                S.ninst += 1
                opn = ins["op"]
                if opn == "phi":
                    if opaque_phis:
                        vals[ins["id"]] = T.opaque(ins["t"].get("bits", 64), "phi-loop%d" % ins["id"])
                        continue
                    if phi_from == "preset":
                        continue
                    r = None
                    incs = ins["inc"]
                    if phi_from is not None:
                        incs = [(v, pb) for v, pb in incs if pb in phi_from]
                    # build select chain; last incoming is the default
                    for v, pb in reversed(incs):
                        ec = econd.get((pb, bid))
                        if ec is None and loops is not None:
                            continue        # edge never taken (so far)
                        tv = self.val(v)
                        if r is None:
                            r = tv
                        elif ec is None:
                            continue
                        else:
                            r = T.select(ec, tv, r)
                    if r is None:
                        r = T.undef(ins["t"].get("bits", 64)) if hasattr(T, "undef") else T.const(ins["t"].get("bits", 64), 0)
                    vals[ins["id"]] = r
                    continue
                if opn == "br":
                    tg = [o["id"] for o in ins["ops"] if o["k"] == "b"]
                    if len(tg) == 1:
                        _addedge(econd, bid, tg[0], cond)
                    else:
                        c = self.val(ins["ops"][0])
                        # operand order in LLVM's operand list: cond, false, true
                        fb, tb = tg[0], tg[1]
                        _addedge(econd, bid, tb, T.and_(cond, c))
                        _addedge(econd, bid, fb, T.and_(cond, T.not_(c)))
                    continue
                if opn == "switch":
                    v = self.val(ins["ops"][0])
                    notany = cond
                    for cv, tb in ins["cases"]:
                        c = T.icmp("eq", v, T.const(v[1], cv))
                        _addedge(econd, bid, tb, T.and_(cond, c))
                        notany = T.and_(notany, T.not_(c))
                    _addedge(econd, bid, ins["default"], notany)
                    continue
                if opn == "ret":
                    if ins["ops"]:
                        rv = self.val(ins["ops"][0])
                        if S.ret is None:
                            S.ret = rv
                            self._retcond = cond
                        else:
                            S.ret = T.select(cond, rv, S.ret)
                    continue
                if opn == "unreachable":
                    S.flags.add("unreachable")
                    continue
                r = self.inst(ins, cond)
                if r is not None:
                    vals[ins["id"]] = r


        def do_loop(h):
            """unroll the natural loop with header h until its back-edge condition normalises to false"""
            body = loops[h]
            border = [b for b in order if b in body]
            outside = {p for p in range(nb) if p not in body}
            snaps = []
            k = 0
            while True:
                if k == 0:
                    run_seq(border, h, outside)
                else:
                    run_seq(border, h, "preset")
                snaps.append(({i: vals[i] for i, db in defblock.items() if db in body and i in vals},
                              {b: bcond.get(b, T.const(1, 0)) for b in body}))
                back = [(p, econd[(p, h)]) for p in sorted(body) if (p, h) in econd]
                bc = T.const(1, 0)
                for p, c in back:
                    bc = T.or_(bc, c)
                if bc[0] == "const" and bc[2] == 0:
                    break
                k += 1
                if k > MAX_UNROLL:
                    raise _NoUnroll("loop at block %d: back edge still feasible after %d iterations" % (h, MAX_UNROLL))
                # header phis of the next iteration, computed from this iteration's values before anything is overwritten
                newphi = {}
                for ins in bmap[h]["insts"]:
                    if ins["op"] != "phi":
                        continue
                    r = None
                    for v, pb in reversed(ins["inc"]):
                        if pb not in body or (pb, h) not in econd:
                            continue
                        tv = self.val(v)
                        r = tv if r is None else T.select(econd[(pb, h)], tv, r)
                    newphi[ins["id"]] = r
                for key in [e for e in econd if e[0] in body and e[1] in body]:
                    del econd[key]
                for b in body:
                    bcond.pop(b, None)
                bcond[h] = bc
                vals.update(newphi)
                S.flags.add("unrolled")
            # a value defined in the loop and used after it: the value of the last iteration that executed its block
            for i in snaps[0][0].keys() | (snaps[-1][0].keys() if snaps else set()):
                m = None
                for sv, sb in snaps:
                    if i not in sv:
                        continue
                    c = sb[defblock[i]]
                    if m is None:
                        m = sv[i]
                    elif c[0] == "const" and c[2] == 0:
                        continue
                    else:
                        m = T.select(c, sv[i], m)
                if m is not None:
                    vals[i] = m
            S.unrolled = max(getattr(S, "unrolled", 0), k + 1)

        def run_seq(seq, loop_header=None, header_phi=None):
            skipped = set()
            for bid in seq:
                if bid in skipped:
                    continue
                if loops and bid in loops and bid != loop_header:
                    do_loop(bid)            # every iteration of the (inner) loop; its blocks are done
                    skipped |= loops[bid]
                    continue
                do_block(bid, header_phi if bid == loop_header else None)

        try:
            run_seq(order)
        except _NoUnroll as ex:
            S2 = self.summarise(fname, argterms, boolmem, unroll=False)
            S2.flags.add("unroll-failed")
            return S2
        if loop and loops is None and S.ret is not None:
            S.ret = T.opaque(S.ret[1], "loop-result", S.ret)
        return S

    # ------------------------------------------------------------ values
    def val(self, v):
        k = v["k"]
        if k == "i":
            r = self._vals.get(v["id"])
            if r is None:
                # forward reference (loop) -> opaque
                return T.opaque(64, "fwd%d" % v["id"])
            return r
        if k == "a":
            return self._args[v["n"]]
        return self.const_term(v)

    def lanes(self, t, n, eb):
        return [T.slice_(t, i * eb, eb) for i in range(n)]

    # ------------------------------------------------------------ instructions
    def inst(self, ins, cond):
        S = self._S
        opn = ins["op"]
        ty = ins["t"]
        bits = ty.get("bits", 0)
        n = ty.get("n", 1)
        eb = ty.get("eb", bits)
        ops = ins["ops"]
        flagged = None
        if (ins.get("nsw") or ins.get("nuw")) and opn in ("add", "sub", "mul"):
            flagged = ("nsw" if ins.get("nsw") else "") + ("nuw" if ins.get("nuw") else "")
            S.poison_flags.append((opn, flagged, ins.get("loc")))

        def V(i):
            return self.val(ops[i])

        if opn in ("add", "mul", "and", "or", "xor"):
            a, b = V(0), V(1)
            if opn in T.BITWISE:
                return T.nary(opn, bits, [a, b])
            rl = [T.nary(opn, eb, [x, y]) for x, y in zip(self.lanes(a, n, eb), self.lanes(b, n, eb))]
            if flagged:
                for r_, x, y in zip(rl, self.lanes(a, n, eb), self.lanes(b, n, eb)):
                    S.flagged.append((r_, opn, flagged, x, y, ins.get("loc")))
                    S.oblig.append(("overflow", cond, opn, flagged, x, y, ins.get("loc")))
            return T.concat(rl)
        if opn == "sub":
            a, b = V(0), V(1)
            rl = [T.sub(x, y) for x, y in zip(self.lanes(a, n, eb), self.lanes(b, n, eb))]
            if flagged:
                for r_, x, y in zip(rl, self.lanes(a, n, eb), self.lanes(b, n, eb)):
                    S.flagged.append((r_, opn, flagged, x, y, ins.get("loc")))
                    S.oblig.append(("overflow", cond, opn, flagged, x, y, ins.get("loc")))
            return T.concat(rl)
        if opn in ("shl", "lshr", "ashr"):
            a, b = V(0), V(1)
            for y in self.lanes(b, n, eb):
                if y[0] != "const" or y[2] >= eb:
                    S.oblig.append(("shift", cond, opn, eb, y, None, ins.get("loc")))
            return T.concat([T.shift(opn, x, y, False) for x, y in zip(self.lanes(a, n, eb), self.lanes(b, n, eb))])
        if opn in ("udiv", "sdiv", "urem", "srem"):
            a, b = V(0), V(1)
            S.flags.add("hwdiv")
            S.effects.append(("trap-div", opn, ins.get("loc"), self.lanes(b, n, eb), self.lanes(a, n, eb)))
            return T.concat([T.op(opn, eb, x, y) for x, y in zip(self.lanes(a, n, eb), self.lanes(b, n, eb))])
        if opn in ("fadd", "fsub", "fmul", "fdiv", "frem"):
            a, b = V(0), V(1)
            if ins.get("fmf"):
                S.flags.add("fastmath")
            if opn == "fsub":
                return T.concat([T.fsub(eb, x, y) for x, y in zip(self.lanes(a, n, eb), self.lanes(b, n, eb))])
            return T.concat([T.opc(opn, eb, x, y) for x, y in zip(self.lanes(a, n, eb), self.lanes(b, n, eb))])
        if opn == "fneg":
            a = V(0)
            # fneg flips the sign bit: pure bit operation
            return T.concat([T.concat([T.slice_(x, 0, eb - 1), T.not_(T.msb(x))]) for x in self.lanes(a, n, eb)])
        if opn == "icmp":
            a, b = V(0), V(1)
            sw = a[1] // n
            return T.concat([T.icmp(ins["pred"], x, y) for x, y in zip(self.lanes(a, n, sw), self.lanes(b, n, sw))])
        if opn == "fcmp":
            a, b = V(0), V(1)
            sw = a[1] // n
            if ins.get("fmf"):
                S.flags.add("fastmath")
            return T.concat([T.fcmp(ins["pred"], x, y) for x, y in zip(self.lanes(a, n, sw), self.lanes(b, n, sw))])
        if opn == "select":
            c, a, b = V(0), V(1), V(2)
            if c[1] == 1:
                return T.select(c, a, b)
            return T.concat([T.select(T.slice_(c, i, 1), x, y)
                             for i, (x, y) in enumerate(zip(self.lanes(a, n, eb), self.lanes(b, n, eb)))])
        if opn in ("zext", "sext"):
            a = V(0)
            sw = a[1] // n
            f = T.zext if opn == "zext" else T.sext
            return T.concat([f(x, eb) for x in self.lanes(a, n, sw)])
        if opn == "trunc":
            a = V(0)
            sw = a[1] // n
            return T.concat([T.slice_(x, 0, eb) for x in self.lanes(a, n, sw)])
        if opn in ("bitcast", "ptrtoint", "inttoptr", "addrspacecast", "freeze"):
            a = V(0)
            if opn == "bitcast" and bits == 80:
                # the x87 bit layout is not the private encoding of lib/fpeval.py (FMT[80])
                return T.opaque(bits, "bitcast-x86_fp80", a)
            if a[1] != bits:
                if a[1] < bits:
                    return T.zext(a, bits)
                return T.slice_(a, 0, bits)
            return a
        if opn in ("sitofp", "uitofp", "fptosi", "fptoui", "fpext", "fptrunc"):
            a = V(0)
            sw = a[1] // n
            return T.concat([T.op(opn, eb, x) for x in self.lanes(a, n, sw)])
        if opn == "extractelement":
            a, i = V(0), V(1)
            if i[0] == "const":
                if i[2] * eb + eb > a[1]:
                    return T.mk("poison", eb)
                return T.slice_(a, i[2] * eb, eb)
            return T.opaque(eb, "extractelement-var", a, i)
        if opn == "insertelement":
            a, x, i = V(0), V(1), V(2)
            if i[0] == "const":
                k = i[2]
                if (k + 1) * eb > bits:
                    return T.mk("poison", bits)
                parts = []
                if k > 0:
                    parts.append(T.slice_(a, 0, k * eb))
                parts.append(x)
                if bits - (k + 1) * eb > 0:
                    parts.append(T.slice_(a, (k + 1) * eb, bits - (k + 1) * eb))
                return T.concat(parts)
            return T.opaque(bits, "insertelement-var", a, x, i)
        if opn == "shufflevector":
            a, b = V(0), V(1)
            cc = T.concat([a, b])
            out = []
            for mi in ins["mask"]:
                if mi < 0:
                    out.append(T.undef(eb))
                else:
                    out.append(T.slice_(cc, mi * eb, eb))
            return T.concat(out)
        if opn == "getelementptr":
            base = V(0)
            r = T.add(base, T.const(64, ins["coff"]))
            for stride, v in ins["terms"]:
                tv = self.val(v)
                if tv[1] < 64:
                    tv = T.sext(tv, 64)
                r = T.add(r, T.mul(tv, T.const(64, stride)))
            return r
        if opn == "load":
            p = V(0)
            if ins.get("volatile"):
                S.flags.add("volatile")
            r = self.do_load(p, bits, cond, ins.get("align", 1), "load", ins.get("loc"))
            if ty.get("s") == "x86_fp80":
                # memory holds the x87 layout, the closed forms use the private encoding of lib/fpeval.py
                return T.opaque(bits, "load-x86_fp80", r)
            return r
        if opn == "store":
            v, p = V(0), V(1)
            if ins.get("volatile"):
                S.flags.add("volatile")
            self.do_store(p, v, cond, ins.get("align", 1), "store", ins.get("loc"))
            return None
        if opn == "alloca":
            S.flags.add("alloca")
            return T.mk("alloca", 64, ins["id"])
        if opn == "call":
            return self.call(ins, cond)
        if opn in ("extractvalue",):
            a = V(0)
            if a[0] == "struct":
                x = a
                for i in ins["idx"]:
                    x = x[2 + i]
                return x
            return T.opaque(bits, "extractvalue", a, *ins["idx"])
        if opn == "insertvalue":
            return T.opaque(bits or 64, "insertvalue", V(0), V(1))
        if opn in ("fence", "atomicrmw", "cmpxchg", "invoke", "landingpad", "resume"):
            S.flags.add(opn)
            S.unknown.append(opn)
            return T.opaque(bits or 64, opn)
        S.unknown.append("inst:" + opn)
        return T.opaque(bits or 64, "inst:" + opn, *[V(i) for i in range(len(ops))])

    # ------------------------------------------------------------ memory
    def do_load(self, p, bits, cond, align, what, loc=None, suppressed=False):
        if T.is_zero(cond):
            return T.undef(bits)        # infeasible path: no access happens
        base, off = split_addr(p)
        size = (bits + 7) // 8
        self._S.accesses.append(Access("r", base, off, size, cond, None, align, suppressed, what, loc))
        if base[0] == "global" or (base[0] == "add" and any(x[0] == "global" for x in base[2:])):
            if base[0] == "global":
                g = self.global_bytes(base[2])
                if g is not None and 0 <= off and off * 8 + bits <= g[1]:
                    return T.slice_(g, off * 8, bits)
            else:
                gl = [x for x in base[2:] if x[0] == "global"]
                rest = [x for x in base[2:] if x[0] != "global"]
                if len(gl) == 1 and rest:
                    g = self.global_bytes(gl[0][2])
                    if g is not None and g[1] <= 1 << 16:
                        # read of a constant table at a computed byte index: value = table bytes at
                        # (index + off); an index outside the table is an out-of-bounds read (poison)
                        idx = rest[0] if len(rest) == 1 else T.nary("add", 64, rest)
                        return T.op("tabload", bits, g, idx, T.const(64, off & ((1 << 64) - 1)))
        if base[0] == "arg" and base[2] in self.boolmem and bits % 8 == 0:
            # memory known to hold valid bools: every byte is zext(bit)
            return T.concat([T.concat([T.mk("mem", 1, base, off + i, 0), T.const(7, 0)]) for i in range(bits // 8)])
        # forward from earlier stores to exactly the same location, otherwise
        # initial memory if no earlier store can alias
        for a in reversed(self._S.accesses[:-1]):
            if a.kind != "w":
                continue
            if a.base is base and a.off == off and a.size == size and T.all_ones(a.cond) and a.value is not None:
                return a.value if a.value[1] == bits else T.slice_(a.value, 0, bits)
            if a.base is base and (a.off + a.size <= off or off + size <= a.off):
                continue
            if a.base[0] == "alloca" and base[0] != "alloca":
                continue
            if base[0] == "alloca" and a.base[0] == "alloca" and a.base is not base:
                continue
            return T.opaque(bits, "load-after-store", base, off)
        return T.mem(base, off, bits)

    def do_store(self, p, v, cond, align, what, loc=None, suppressed=False):
        if T.is_zero(cond):
            return
        base, off = split_addr(p)
        size = (v[1] + 7) // 8
        self._S.accesses.append(Access("w", base, off, size, cond, v, align, suppressed, what, loc))

    # ------------------------------------------------------------ calls
    def call(self, ins, cond):
        S = self._S
        ty = ins["t"]
        bits = ty.get("bits", 0)
        n = ty.get("n", 1)
        eb = ty.get("eb", bits)
        ops = ins["ops"]
        cal = ins.get("callee") or ""
        if cal.startswith("llvm.experimental.constrained."):
            # strict floating point (-frounding-math): the operation of the same name evaluated under the
            # dynamic rounding mode, which is how every float step of a closed form is evaluated anyway
            # (lib/fpeval.py, four modes).  metadata: rounding mode / exception behaviour / fcmp predicate
            opn = cal.split(".")[3]
            mds = [o.get("s") for o in ops if o["k"] == "md"]
            real = [o for o in ops if o["k"] != "md"]
            rounding = [m for m in mds if m and m.startswith("round.")]
            if rounding and rounding[0] != "round.dynamic":
                S.unknown.append(cal + ":" + rounding[0])
                return T.opaque(bits, "intr:" + cal, *[self.val(o) for o in real])
            if opn in ("fadd", "fsub", "fmul", "fdiv", "frem", "sitofp", "uitofp", "fptosi", "fptoui", "fpext", "fptrunc"):
                return self.inst(dict(ins, op=opn, ops=real), cond)
            if opn in ("fcmp", "fcmps"):
                pred = [m for m in mds if m and not m.startswith("fpexcept.")]
                return self.inst(dict(ins, op="fcmp", ops=real, pred=pred[0]), cond)
            if opn in ("sqrt", "fma", "fmuladd", "ceil", "floor", "trunc", "rint", "nearbyint", "round", "roundeven",
                       "maxnum", "minnum", "maximum", "minimum"):
                return self.call(dict(ins, ops=real, callee="llvm.%s.%s" % (opn, cal.split(".", 4)[4] if cal.count(".") >= 4 else "")), cond)
            S.unknown.append(cal)
            return T.opaque(bits, "intr:" + cal, *[self.val(o) for o in real])
        args = [self.val(o) for o in ops]
        if "asm" in ins and ins["asm"].strip() in ("divq $2", "div $2") and (ins.get("asmc") or "").startswith(
                "={ax},={dx},r,{ax},{dx}") and len(args) == 3 and bits == 128:
            # SDM DIV r/m64: RDX:RAX / divisor -> RAX quotient, RDX remainder; #DE when the divisor is 0 or
            # the quotient does not fit in 64 bits (RDX >= divisor)
            y, lo, hi = args
            if lo[1] < 64:
                lo = T.zext(lo, 64)
            S.effects.append(("divq", ins["asm"], ins.get("loc"), hi, y))
            S.oblig.append(("divq", cond, "divq", 64, hi, y, ins.get("loc")))
            return T.mk("struct", 128, T.op("x86.divq.q", 64, hi, lo, y), T.op("x86.divq.r", 64, hi, lo, y))
        if "asm" in ins:
            S.effects.append(("asm", ins["asm"], ins.get("asmc"), ins.get("loc")))
            S.flags.add("asm")
            return T.opaque(bits or 64, "asm:" + ins["asm"], *args) if bits else None
        name = ins.get("callee")
        if name is None:
            S.flags.add("indirect-call")
            S.unknown.append("indirect")
            return T.opaque(bits or 64, "indirect") if bits else None
        if not name.startswith("llvm."):
            if T.is_zero(cond):
                return T.undef(bits) if bits else None      # block unreachable for these (substituted) arguments
            S.calls.append((name, args, ins.get("loc")))
            if name == "posix_memalign":
                # int posix_memalign(void **memptr, size_t alignment, size_t size): *memptr = block
                self.do_store(args[0], T.opaque(64, "call:posix_memalign", args[1], args[2]), cond, 8,
                              "posix_memalign", ins.get("loc"))
                return T.opaque(bits, "posix_memalign-status", args[1], args[2])
            if name in ("malloc", "calloc", "realloc"):
                return malloc_result(name, args)
            if name in ("aligned_alloc", "free"):
                return T.opaque(bits, "call:" + name, *args) if bits else None
            if name in C_SPEC2:
                return T.op("spec:c_" + C_SPEC2[name], bits, args[0], args[1])
            if name in C_SPEC1:
                return T.op("spec:c_" + C_SPEC1[name], bits, args[0])
            if name in ("frexp", "frexpf"):
                # double frexp(double, int*): exponent stored through the pointer
                self.do_store(args[1], T.op("spec:c_frexp_e", 32, args[0]), cond, 4, name, ins.get("loc"))
                return T.op("spec:c_frexp_m", bits, args[0])
            if name in ("copysign", "copysignf"):
                return T.concat([T.slice_(args[0], 0, bits - 1), T.msb(args[1])])
            if name in ("fabs", "fabsf"):
                return T.concat([T.slice_(args[0], 0, bits - 1), T.const(1, 0)])
            if name in LIBM_AS_INTR:
                return T.op("call:" + LIBM_AS_INTR[name], bits, *args)
            if name in LIBM_PURE:
                return T.op("call:" + name, bits, *args) if bits else None
            S.flags.add("call")
            return T.opaque(bits, "call:" + name, *args) if bits else None
        base = _strip_suffix(name)
        if base in ("llvm.lifetime.start", "llvm.lifetime.end", "llvm.dbg.value", "llvm.dbg.declare",
                    "llvm.assume", "llvm.experimental.noalias.scope.decl", "llvm.dbg.label"):
            return None
        if base == "llvm.copysign":
            return T.concat([T.concat([T.slice_(x, 0, eb - 1), T.msb(y)])
                             for x, y in zip(self.lanes(args[0], n, eb), self.lanes(args[1], n, eb))])
        if base == "llvm.fabs":
            return T.concat([T.concat([T.slice_(x, 0, eb - 1), T.const(1, 0)]) for x in self.lanes(args[0], n, eb)])
        if base == "llvm.bswap":
            out = []
            for x in self.lanes(args[0], n, eb):
                out.append(T.concat([T.slice_(x, eb - 8 - 8 * i, 8) for i in range(eb // 8)]))
            return T.concat(out)
        if base == "llvm.ctpop":
            return T.concat([T.ctpop(eb, x) for x in self.lanes(args[0], n, eb)])
        if base == "llvm.nearbyint":
            base = "llvm.rint"
        if base in LANEWISE_INTR:
            k = LANEWISE_INTR[base]
            ls = [self.lanes(a, n, eb) for a in args[:k]]
            nm = "call:" + base
            if k == 2:
                return T.concat([T.opc(nm, eb, ls[0][i], ls[1][i]) for i in range(n)])
            return T.concat([T.op(nm, eb, *[l[i] for l in ls]) for i in range(n)])
        if base in LANEWISE_FLAG:
            flag = args[1]
            if flag[0] == "const" and flag[2]:
                for x in self.lanes(args[0], n, eb):
                    S.oblig.append(("zero-undef" if base != "llvm.abs" else "abs-min", cond, base, eb, x, None, ins.get("loc")))
            nm = "call:" + base
            return T.concat([T.op(nm, eb, x, flag) for x in self.lanes(args[0], n, eb)])
        if base in ("llvm.fshl", "llvm.fshr"):
            a, b, c = [self.lanes(x, n, eb) for x in args]
            return T.concat([T.fsh(base[5:], a[i], b[i], c[i]) for i in range(n)])
        if base == "llvm.masked.load":
            p, al, m, pt = args
            out = []
            for i in range(n):
                mi = T.slice_(m, i, 1)
                if T.is_zero(mi):
                    out.append(T.slice_(pt, i * eb, eb))
                    continue
                v = self.do_load(T.add(p, T.const(64, i * eb // 8)), eb, T.and_(cond, mi), al[2],
                                 "llvm.masked.load", ins.get("loc"), suppressed=True)
                out.append(T.select(mi, v, T.slice_(pt, i * eb, eb)))
            return T.concat(out)
        if base == "llvm.masked.store":
            v, p, al, m = args
            nn = ops and ins["ops"][0] and (v[1] // max(1, m[1]))
            ebs = v[1] // m[1]
            for i in range(m[1]):
                mi = T.slice_(m, i, 1)
                if T.is_zero(mi):
                    continue
                self.do_store(T.add(p, T.const(64, i * ebs // 8)), T.slice_(v, i * ebs, ebs),
                              T.and_(cond, mi), al[2], "llvm.masked.store", ins.get("loc"), suppressed=True)
            return None
        if base == "llvm.masked.gather":
            ptrs, al, m, pt = args
            out = []
            for i in range(n):
                mi = T.slice_(m, i, 1)
                if T.is_zero(mi):
                    out.append(T.slice_(pt, i * eb, eb))
                    continue
                v = self.do_load(T.slice_(ptrs, i * 64, 64), eb, T.and_(cond, mi), al[2],
                                 "llvm.masked.gather", ins.get("loc"), suppressed=True)
                out.append(T.select(mi, v, T.slice_(pt, i * eb, eb)))
            return T.concat(out)
        if base == "llvm.masked.scatter":
            v, ptrs, al, m = args
            ebs = v[1] // m[1]
            for i in range(m[1]):
                mi = T.slice_(m, i, 1)
                if T.is_zero(mi):
                    continue
                self.do_store(T.slice_(ptrs, i * 64, 64), T.slice_(v, i * ebs, ebs), T.and_(cond, mi),
                              al[2], "llvm.masked.scatter", ins.get("loc"), suppressed=True)
            return None
        if base in ("llvm.memcpy", "llvm.memmove"):
            d, s, ln = args[0], args[1], args[2]
            if ln[0] == "const":
                nb = ln[2]
                if nb == 0:
                    return None
                v = self.do_load(s, nb * 8, cond, 1, base, ins.get("loc"))
                self.do_store(d, v, cond, 1, base, ins.get("loc"))
                return None
            S.flags.add("memcpy-var")
            S.accesses.append(Access("r", s, 0, None, cond, None, 1, False, base, ins.get("loc")))
            S.accesses.append(Access("w", d, 0, None, cond, None, 1, False, base, ins.get("loc")))
            return None
        if base == "llvm.memset":
            d, v, ln = args[0], args[1], args[2]
            if ln[0] == "const":
                if ln[2]:
                    self.do_store(d, T.concat([v] * ln[2]), cond, 1, base, ins.get("loc"))
                return None
            S.flags.add("memset-var")
            S.accesses.append(Access("w", d, 0, None, cond, None, 1, False, base, ins.get("loc")))
            return None
        if base == "llvm.prefetch":
            S.effects.append(("prefetch", args, ins.get("loc")))
            return None
        if base in ("llvm.vector.reduce.or", "llvm.vector.reduce.and", "llvm.vector.reduce.add",
                    "llvm.vector.reduce.xor"):
            a = args[0]
            sn = ops and a[1] // bits
            o = base.rsplit(".", 1)[1]
            return T.nary(o, bits, self.lanes(a, sn, bits))
        h = self.isa.get(base)
        if h is None:
            import isa as _isa
            h = _isa.lookup_prefix(base)
        if h is not None:
            r = h(self, ins, args, cond)
            if r is not NotImplemented:
                return r
        S.unknown.append(base)
        if ins.get("readnone"):
            return T.opaque(bits, "intr:" + base, *args) if bits else None
        S.flags.add("unknown-effect")
        return T.opaque(bits, "intr:" + base, *args) if bits else None


MAX_UNROLL = 72


class _NoUnroll(Exception):
    pass


def _natural_loops(nb, succ, order):
    """header -> set of body blocks for a reducible CFG (None otherwise)"""
    pos = {b: i for i, b in enumerate(order)}
    pred = {}
    for a, ss in succ.items():
        if a not in pos:
            continue
        for s_ in ss:
            pred.setdefault(s_, set()).add(a)
    # dominators (iterative, RPO)
    dom = {order[0]: {order[0]}}
    allb = set(order)
    for b in order[1:]:
        dom[b] = set(allb)
    changed = True
    while changed:
        changed = False
        for b in order[1:]:
            ps = [dom[p] for p in pred.get(b, ()) if p in dom]
            nd = set.intersection(*ps) if ps else set()
            nd = nd | {b}
            if nd != dom[b]:
                dom[b] = nd
                changed = True
    loops = {}
    for a in order:
        for h in succ.get(a, ()):
            if h in pos and pos[h] <= pos[a]:
                if h not in dom[a]:
                    return None         # retreating edge that is not a back edge: irreducible
                body = loops.setdefault(h, {h})
                stack = [a]
                while stack:
                    x = stack.pop()
                    if x in body:
                        continue
                    body.add(x)
                    stack.extend(p for p in pred.get(x, ()) if p in pos)
    return loops


def _addedge(econd, a, b, c):
    if (a, b) in econd:
        econd[(a, b)] = T.or_(econd[(a, b)], c)
    else:
        econd[(a, b)] = c


def _topo(nb, succ):
    """reverse post-order from block 0; loop=True if a back edge exists"""
    color = {}
    order = []
    loop = False
    stack = [(0, iter(succ.get(0, [])))]
    color[0] = 1
    while stack:
        b, it = stack[-1]
        adv = False
        for s in it:
            if color.get(s, 0) == 0:
                color[s] = 1
                stack.append((s, iter(succ.get(s, []))))
                adv = True
                break
            elif color[s] == 1:
                loop = True
        if not adv:
            color[b] = 2
            order.append(b)
            stack.pop()
    order.reverse()
    return order, loop
