"""Compare the summary of a wrapper function with the expected closed form.

HOLDS   : identical normal forms (plus the op's side conditions).
REFUTED : both closed forms are fully interpreted and a point is exhibited
          where they differ (the *terms* are evaluated, never the program), or
          an op-specific refutation pattern matched.
UNDECIDED otherwise.
"""
import random

import term as T
import tcompile
from common import HOLDS, REFUTED, UNDECIDED


class Ctx:
    """what an expectation function sees"""

    def __init__(self, vt, inst, fjson):
        self.vt = vt
        self.inst = inst
        self.f = fjson
        self.args = {}        # name -> term
        self.argkinds = {}
        self.argidx = {}
        self.maskrep = {}     # name -> ('k', W) | ('lane', eb) | ('bool',)
        self.retrep = None
        self.retbits = fjson["ret"].get("bits", 0)
        self.names = []

    # --- helpers for expectation functions
    def lanes(self, name, eb=None, n=None):
        t = self.args[name]
        eb = eb or self.vt.eb
        n = n or (t[1] // eb)
        return [T.slice_(t, i * eb, eb) for i in range(n)]

    def mbits(self, name):
        """truth value (1-bit term) of each lane of a mask argument"""
        rep = self.maskrep[name]
        k = self.argidx[name]
        n = self.vt.n
        if rep[0] == "k":
            return [T.arg(k, i, 1) for i in range(n)]
        if rep[0] == "lane":
            return [T.arg(k, i * rep[1], 1) for i in range(n)]
        return [T.arg(k, 0, 1)]

    def pack(self, lanes):
        return T.concat(lanes)

    def pack_mask(self, bits_):
        rep = self.retrep
        if rep[0] == "k":
            return T.concat(list(bits_) + [T.const(rep[1] - len(bits_), 0)])
        if rep[0] == "lane":
            return T.concat([T.rep(rep[1], b) for b in bits_])
        return bits_[0]


def mask_rep(tyjson, vt):
    """representation of a mask primitive from its IR type"""
    if "n" in tyjson:
        return ("lane", tyjson["bits"] // vt.n)
    if tyjson.get("bits") == 1:
        return ("bool",)
    return ("k", tyjson["bits"])


def mask_arg_term(k, rep, vt):
    n = vt.n
    if rep[0] == "k":
        return T.concat([T.arg(k, 0, n), T.const(rep[1] - n, 0)]) if rep[1] > n else T.arg(k, 0, n)
    if rep[0] == "lane":
        return T.concat([T.rep(rep[1], T.arg(k, i * rep[1], 1)) for i in range(n)])
    return T.arg(k, 0, 1)


# ------------------------------------------------------------------ witness search

def _lane_cands(eb):
    """boundary lattice per lane: every combination of boundary half-words
    (catches emulations that treat the halves differently), then float
    patterns and a few small values"""
    M = (1 << eb) - 1
    c = []
    if eb >= 16:
        h = eb // 2
        HM = (1 << h) - 1
        H = [0, 1, HM >> 1, 1 << (h - 1), HM]
        for hi in H:
            for lo in H:
                c.append((hi << h) | lo)
    else:
        c = [0, 1, 2, 3, 0x7F, 0x80, 0x81, 0xFE, 0xFF, 0x55, 0xAA, 0x0F, 0xF0, 7, 8, 9]
    c += [2, 3, M - 1, 0x55555555555555555555 & M, 0xAAAAAAAAAAAAAAAAAAAA & M,
          0x0807060504030201 & M, 0xF1E2D3C4B5A69788 & M, eb, eb - 1, eb + 1, 7, 8, 9]
    if eb == 32:
        c += [0x3F800000, 0xBF800000, 0x7F800000, 0xFF800000, 0x7FC00000,
              0xFFC00000, 0x7F7FFFFF, 0x00800000, 0x40200000, 0x3F000000,
              0x007FFFFF, 0x00400000, 0x80000001, 0xBF000000, 0x3FC00000, 0xC0200000, 0x4B000000, 0x4AFFFFFF,
              0x4B000001, 0x3EFFFFFF, 0x7F800001, 0x00000003, 0x41C80000, 0x0DA24260]
    elif eb == 64:
        c += [0x3FF0000000000000, 0xBFF0000000000000, 0x7FF0000000000000,
              0xFFF0000000000000, 0x7FF8000000000000, 0xFFF8000000000000,
              0x4004000000000000, 0x3FE0000000000000, 0x0010000000000000,
              0x000FFFFFFFFFFFFF, 0x0008000000000000, 0x8000000000000001, 0xBFE0000000000000, 0x3FF8000000000000,
              0xC004000000000000, 0x4330000000000000, 0x432FFFFFFFFFFFFF, 0x4330000000000001, 0x3FDFFFFFFFFFFFFF,
              0x7FF0000000000001, 0x4039000000000000, 0x7FEFFFFFFFFFFFFF]
    out = []
    for x in c:
        x &= M
        if x not in out:
            out.append(x)
    return out


def _msb_sweep(eb):
    M = (1 << eb) - 1
    out = []
    for h in range(eb):
        b = 1 << h
        for x in (b, (b << 1) - 1, b | 1, b | (b >> 1), b | (b >> 1) | 1, (b << 1) - 2 if h else b,
                  b | ((b - 1) & (0x5555555555555555 & M)), M & ~((b << 1) - 1), b | (M & ~((b << 1) - 1) & (M >> 1))):
            for y in (x & M, ~x & M):
                out.append(y)
    seen = set()
    res = []
    for x in out:
        if x not in seen:
            seen.add(x)
            res.append(x)
    return res


def _fp_exp_sweep(eb):
    """one-operand float functions branch on the exponent field: every biased exponent (binary32), or the
    exponents around every boundary plus a stride through the rest (binary64), with the mantissas 0, 1, top
    bit, all ones, in both signs"""
    mb, xb = (23, 8) if eb == 32 else (52, 11)
    emax = (1 << xb) - 1
    if eb == 32:
        exps = list(range(0, emax + 1))
    else:
        exps = sorted(set(list(range(0, 72)) + list(range(960, 1100)) + list(range(emax - 70, emax + 1)) + list(range(72, emax - 70, 41))))
    out = []
    for e in exps:
        for m in (0, 1, 1 << (mb - 1), (1 << mb) - 1):
            for sg in (0, 1):
                out.append((sg << (eb - 1)) | (e << mb) | m)
    return out


FP_SWEEP = [False]      # set by the float rules: the single operand is a float (exponent sweep is meaningful)


def gen_envs(argspecs, seed=0, limit=2600):
    """argspecs: list of (bits, lane_bits, domain) per IR argument.  Yields
    argument vectors: uniform vectors for every pair of lattice values
    (even-numbered arguments take s, odd-numbered t), then vectors whose lanes
    all differ, then pseudo-random ones."""
    rnd = random.Random(seed)
    cands = [(_lane_cands(lb) if lb else None) for (b, lb, dom) in argspecs]
    nl = [((b // lb) if lb else 1) for (b, lb, dom) in argspecs]
    nargs = sum(1 for c in cands if c)
    if nargs <= 1:
        # one data argument: the lattice can afford a sweep over the position of the highest / lowest
        # set bit (bit-counting and int->float emulations branch on exactly that)
        # (lanes of <= 16 bits are decided by the truth table instead)
        def ext(c, extra):
            have = set(c)
            return c + [x for x in extra if x not in have]
        if FP_SWEEP[0]:
            # float operand: the exponent sweep first (it is what float emulations branch on)
            cands = [ext(c, _fp_exp_sweep(argspecs[i][1])) if c and argspecs[i][1] in (32, 64) else c for i, c in enumerate(cands)]
            limit = max(limit, 6000)
        cands = [ext(c, _msb_sweep(argspecs[i][1])) if c and argspecs[i][1] > 16 else c for i, c in enumerate(cands)]
    C = max([len(c) for c in cands if c] + [1])
    shapes = []
    if nargs <= 1:
        for s in range(C):
            shapes.append(("uni", s, s))
    else:
        # all pairs of the first 25 (half-word boundary combinations: carries, sign bits) first, then the
        # remaining pairs in a fixed pseudo-random order, so that a work budget that only reaches a prefix
        # still samples every value of both arguments
        core = min(C, 25)
        for s in range(core):
            for t in range(core):
                shapes.append(("uni", s, t))
        rest = [("uni", s, t) for s in range(C) for t in range(C) if s >= core or t >= core]
        random.Random(20240917).shuffle(rest)
        shapes += rest
    others = []
    for s in range(C):
        for k in (1, 3, 5):
            others.append(("rot", s, k))
    for i in range(60 if any(b > 128 and lb and lb <= 8 for (b, lb, dom) in argspecs) else 400):
        others.append(("rnd", i, 0))
    # interleave: vectors whose lanes differ must be reached even when the work budget only allows a
    # prefix of the list (cross-lane mix-ups are invisible on uniform vectors)
    uni = shapes
    shapes = []
    oi = 0
    for i, sh_ in enumerate(uni):
        shapes.append(sh_)
        if i % 3 == 2 and oi < len(others):
            shapes.append(others[oi])
            oi += 1
    shapes += others[oi:]
    count = 0
    for sh in shapes:
        args = []
        for ai, (b, lb, dom) in enumerate(argspecs):
            if not lb:
                args.append(0)
                continue
            c = cands[ai]
            v = 0
            for l in range(nl[ai]):
                if sh[0] == "uni":
                    x = c[(sh[1] if ai % 2 == 0 else sh[2]) % len(c)]
                elif sh[0] == "rot":
                    x = c[(sh[1] + l * (sh[2] if ai % 2 else 1) + ai * 2) % len(c)]
                else:
                    x = rnd.getrandbits(lb) if rnd.random() < 0.6 else c[rnd.randrange(len(c))]
                v |= x << (l * lb)
            if dom:
                v = dom(v)
            args.append(v)
        yield args
        count += 1
        if count >= limit:
            break


GUARD_FCMP = [True]      # float thresholds among the guard-constant probes: quick tier only (see DESIGN 11.16)
BDD_NODES = [250000]    # node budget of the ROBDD comparison per lane form (the thorough tier raises it)
DAZ_MODE = [False]      # also evaluate under MXCSR.DAZ (set by rules whose specification is not a float operation: masks)
EXTRA_UNIFORM = [False]   # rule-specific points are used as uniform vectors (one of the operands is a scalar)
EXTRA_POINTS = [None]   # rule-specific paired lane values [{argname: lane value}], tried first (uniform vectors)
NUMEQ = [False]     # compare float lanes as numbers (+0 == -0): set by rules whose statement says "same number"
NANEQ = [False]     # two NaN lanes count as equal (payload / sign of a NaN result unspecified), zeros keep their sign


def _same_mod_nan(a, e, width, eb):
    """lane-wise equality where two NaN lanes count as equal"""
    import fpeval
    M = (1 << eb) - 1
    for i in range(width // eb):
        x, y = (a >> (i * eb)) & M, (e >> (i * eb)) & M
        if x != y and not (fpeval.isnan(x, eb) and fpeval.isnan(y, eb)):
            if NUMEQ[0] and (x << 1) & M == 0 and (y << 1) & M == 0:
                continue        # +0 and -0 are the same number
            return False
    return True


def find_witness(actual, expected, argspecs, names=None, lane_bits=None, seed=0, env_ok=None, watch=None):
    """a point where the two closed forms differ (or where the actual one is undefined), or None.
    Closed forms with float arithmetic are evaluated under all four rounding modes."""
    fp = T.has_fp(actual) or T.has_fp(expected)
    modes = ("RN", "RD", "RU", "RZ") if fp else ("RN",)
    if DAZ_MODE[0] and (fp or T.contains_op(actual, ("fcmp",))):
        modes = modes + ("RN/daz",)
    for w_ in _find_witness(actual, expected, argspecs, names, lane_bits, seed, env_ok, watch, modes, fp):
        return w_
    return None


def _cross_lane_envs(actual, argspecs, lane_bits):
    """targeted probes: when the closed form of output lane i mentions bits of lane j != i of a vector
    argument, vary only lane j over lattice values on a few uniform backgrounds.  (Mentioning is not
    depending - the probes are only candidates; the verdict still comes from evaluating both forms.)"""
    if not lane_bits or actual[1] % lane_bits or actual[1] == lane_bits:
        return
    n = actual[1] // lane_bits
    pairs = []
    for i in sorted({0, 1, n // 2, n - 1}):
        if i >= n:
            continue
        lt = T.slice_(actual, i * lane_bits, lane_bits)
        for lf in T.leaves(lt, ("arg",)):
            k = lf[2]
            if k >= len(argspecs):
                continue
            b, lb, dom = argspecs[k]
            if not lb or b // lb != n:
                continue
            for j in {lf[3] // lb, (lf[3] + lf[1] - 1) // lb}:
                if j != i and (k, j) not in pairs:
                    pairs.append((k, j))
        if len(pairs) >= 6:
            break
    if not pairs:
        return
    # backgrounds: the same value in every lane of every operand, then mixed pairs (even-numbered operands /
    # odd-numbered operands) with a large first and a small or negative second operand - a corrupted
    # neighbour-dependent constant (multiplier, shift count) shows only when the lane's own operands differ
    lb0 = argspecs[pairs[0][0]][1]
    L0 = (1 << lb0) - 1
    bgs = [(L0 >> 1, 2), (1, 1), ((L0 >> 1) - 0xFE, L0 - 1), (3, 3), ((L0 >> 1) + 2, 3), (L0, L0), (L0, 7), (L0 >> 1, L0 >> 1),
           ((L0 >> 1) + 2, L0), (0x00010003 & L0 or 5, 0x00010003 & L0 or 5), (L0 >> 2, 15 & L0)]
    for bgx, bgy in bgs:
        for vi in range(14):
            for k, j in pairs[:6]:
                lb = argspecs[k][1]
                vals = _lane_cands(lb)
                LM = (1 << lb) - 1
                pv = [vals[x % len(vals)] for x in (1, 4, 6, 12, 18, 24, 3, 9, 20, 30, 33)] + [LM, (LM >> 1) + 1, 0]
                v = pv[vi]
                args = []
                for ai, (b, l2, dom) in enumerate(argspecs):
                    bg = bgx if ai % 2 == 0 else bgy
                    if not l2:
                        args.append(bg & ((1 << b) - 1) if b <= 64 else 0)
                        continue
                    x = 0
                    for l in range(b // l2):
                        x |= (bg & ((1 << l2) - 1)) << (l * l2)
                    if ai == k:
                        x = (x & ~(LM << (j * lb))) | (v << (j * lb))
                    if dom:
                        x = dom(x)
                    args.append(x)
                yield args


def _dep_diff_envs(actual, expected, argspecs):
    """targeted probes: argument bits that one closed form mentions and the other does not.  If the form
    that mentions bit j really depends on it, flipping j on some background separates the two forms; the
    backgrounds tried are all-ones, all-zeros and alternating patterns (the neutral elements of the
    and/or/compare reductions such forms are made of)."""
    cov = []
    for t in (actual, expected):
        c = {}
        for lf in T.leaves(t, ("arg",)):
            if lf[2] < len(argspecs):
                c[lf[2]] = c.get(lf[2], 0) | (((1 << lf[1]) - 1) << lf[3])
        cov.append(c)
    out = 0
    for k in sorted(set(cov[0]) | set(cov[1])):
        diff = cov[0].get(k, 0) ^ cov[1].get(k, 0)
        if not diff:
            continue
        bits = argspecs[k][0]
        FM = (1 << bits) - 1
        runs = []
        b = 0
        while b < bits and len(runs) < 6:
            if (diff >> b) & 1:
                e = b
                while e < bits and (diff >> e) & 1:
                    e += 1
                runs.append((b, e))
                b = e
            else:
                b += 1
        for bg in (FM, 0, 0x5555555555555555555555555555555555555555555555555555555555555555555555555555555555 & FM,
                   0xAAAAAAAAAAAAAAAAAAAAAAAAAAAAAAAAAAAAAAAAAAAAAAAAAAAAAAAAAAAAAAAAAAAAAAAAAAAAAAAAAAAAAAAAAA & FM):
            for (b0, e0) in runs:
                for fl in (((1 << (e0 - b0)) - 1) << b0, 1 << b0, 1 << (e0 - 1)):
                    args = []
                    for ai, (bt, lb, dom) in enumerate(argspecs):
                        AM = (1 << bt) - 1
                        v = (bg & AM) if bt <= bits else sum((bg & FM) << (i * bits) for i in range(bt // bits + 1)) & AM
                        if ai == k:
                            v ^= fl
                        if dom:
                            v = dom(v)
                        args.append(v)
                    yield args
                    out += 1
                    if out >= 96:
                        return


def _solve_eq(x, c):
    """{arg index: (mask, value)} making the term x equal to the constant c, for the invertible shapes
    (argument slices, concatenations, zero extensions, masks, xor / add / not with constants); None otherwise"""
    o, w = x[0], x[1]
    c &= (1 << w) - 1
    if o == "const":
        return {} if x[2] == c else None
    if o == "arg":
        return {x[2]: (((1 << w) - 1) << x[3], c << x[3])}
    if o == "concat":
        out = {}
        lo = 0
        for p_ in x[2:]:
            r = _solve_eq(p_, (c >> lo) & ((1 << p_[1]) - 1))
            if r is None:
                return None
            for k, (m, v) in r.items():
                m0, v0 = out.get(k, (0, 0))
                if (m0 & m) and ((v0 ^ v) & m0 & m):
                    return None
                out[k] = (m0 | m, v0 | v)
            lo += p_[1]
        return out
    if o == "slice":
        inner = x[2]
        if inner[0] in ("arg", "concat"):
            return None             # normalised away by the constructors; not expected
        return None
    if o == "not":
        return _solve_eq(x[2], ~c)
    if o in ("and", "xor", "add") and len(x) == 4:
        a, b = x[2], x[3]
        if a[0] == "const":
            a, b = b, a
        if b[0] != "const":
            return None
        if o == "and":
            if c & ~b[2]:
                return None
            return _solve_eq(a, c)
        if o == "xor":
            return _solve_eq(a, c ^ b[2])
        return _solve_eq(a, c - b[2])
    return None


def _guard_envs(forms, argspecs, limit=240):
    """targeted probes taken from the code's own constants: for every comparison of an invertible expression
    over argument bits with a constant, inputs on which the expression equals the constant (and its two
    neighbours), on several backgrounds.  A guard such as  x == 0x6AD6  is satisfied by one value in 2^16;
    the forms say which one.  (Only candidates: the verdict comes from evaluating both forms.)"""
    guards = []
    seen = set()
    stack = list(forms)
    while stack and len(guards) < 64:
        x = stack.pop()
        if not isinstance(x, tuple) or id(x) in seen:
            continue
        seen.add(id(x))
        if x[0] in ("icmp", "fcmp"):
            # (a float threshold is a constant like any other: the operand's bit pattern equal to it, and the
            # two adjacent patterns, are the inputs on either side of the branch)
            a, b = x[3], x[4]
            if a[0] == "const":
                a, b = b, a
            if b[0] == "const" and a[0] != "const" and a[1] >= 4 and (x[0] == "icmp" or (b[2] != 0 and GUARD_FCMP[0])):
                guards.append((a, b[2]))
        stack.extend(y for y in x[2:] if isinstance(y, tuple))
    if not guards:
        return
    rnd = random.Random(977)
    out = 0
    sols = []
    have = set()
    for (a, c) in guards:
        for d in (0, 1, -1):
            r = _solve_eq(a, c + d)
            if r:
                key = tuple(sorted(r.items()))
                if key not in have:
                    have.add(key)
                    sols.append(r)
    if not sols:
        return
    per = max(2, min(6, limit // len(sols)))
    for r in sols:
        for j in range(per):
            args = []
            for ai, (bt, lb, dom) in enumerate(argspecs):
                AM = (1 << bt) - 1
                if j == 0:
                    v = rnd.getrandbits(bt)
                elif j == 1:
                    v = 0
                elif j == 2:
                    v = AM
                else:
                    v = rnd.getrandbits(bt)
                if ai in r:
                    m, val = r[ai]
                    v = (v & ~m) | val
                v &= AM
                if dom:
                    v = dom(v)
                args.append(v)
            yield args
            out += 1
            if out >= limit:
                return


def _count_fp(t):
    seen = set()
    stack = [t]
    n = 0
    while stack:
        x = stack.pop()
        if not isinstance(x, tuple) or id(x) in seen:
            continue
        seen.add(id(x))
        if x[0] in T.FP_OPS or x[0].startswith("fr:") or x[0].startswith("spec:c_") or x[0].startswith("x86.get") \
                or x[0] in ("x86.fixupimm", "x86.range"):
            n += 1
        stack.extend(y for y in x[2:] if isinstance(y, tuple))
    return n


def _find_witness(actual, expected, argspecs, names, lane_bits, seed, env_ok, watch, modes, fp):
    import itertools
    sz = max(1, T.size(actual) + T.size(expected))
    nfp = _count_fp(actual) + _count_fp(expected)
    # integer nodes are evaluated by the straight-line translation of lib/tcompile.py (about 0.1 us each);
    # a float step is exact rational arithmetic (about 15 us): one work tick is ~64 integer nodes or half a
    # float step
    budget = max(24, min(6000 if FP_SWEEP[0] else 2600, 4000000 // (sz + 150 * nfp)))
    cost = max(1, sz // 64 + 2 * nfp) * len(modes)
    probes = list(itertools.islice(_cross_lane_envs(actual, argspecs, lane_bits), 600 if nfp * 40 < sz else 120))
    probes = list(_dep_diff_envs(actual, expected, argspecs)) + probes
    guards = list(_guard_envs((actual, expected), argspecs))
    probes = probes[:60] + guards + probes[60:]
    if EXTRA_POINTS[0] and names:
        ex = []
        pts = EXTRA_POINTS[0]
        nl = max([b // lb for (b, lb, dom) in argspecs if lb] + [1])
        step = 1 if EXTRA_UNIFORM[0] else nl
        chunks = []
        for pt in pts:
            if pt.get("_uniform"):
                chunks.append([pt] * nl)                              # a point that must be presented in every lane at once
        plain = [pt for pt in pts if not pt.get("_uniform")]
        for c0 in range(0, len(plain), step):
            chunk = plain[c0:c0 + step]
            chunks.append(chunk + [chunk[0]] * (nl - len(chunk)))     # one point per lane (the same point in every lane if uniform)
        for chunk in chunks:
            args = []
            for ai, (b, lb, dom) in enumerate(argspecs):
                nm = names[ai] if ai < len(names) else None
                if nm not in chunk[0]:
                    args.append(0)
                    continue
                if lb:
                    v = sum((chunk[l % nl][nm] & ((1 << lb) - 1)) << (l * lb) for l in range(b // lb))
                else:
                    v = chunk[0][nm]
                if dom:
                    v = dom(v)
                args.append(v)
            ex.append(args)
        # a first slice of the structural probes (dependency differences, cross-lane) stays ahead of the rule's
        # points: a long point list must not use up the budget before any of them is tried
        probes = probes[:170] + ex + probes[170:]
    budget += len(probes)
    ne = 0
    for args in itertools.chain(probes, gen_envs(argspecs, seed)):
        if ne >= budget:
            break
        if env_ok is not None:
            ok = env_ok(args, names)
            if ok is None:
                return
            if not ok:
                continue        # outside the documented domain: not an evaluation, costs nothing
        ne += 1
        for rm in modes:
            r = _one_env(actual, expected, args, names, lane_bits, watch, rm, fp)
            if r is not None:
                yield r
                return
        try:
            T.work(cost)
        except T.TooBig:
            return


def _mem_byte(a):
    """contents of the (arbitrary) initial memory at byte address a: every address bit matters, so two
    closed forms that read different addresses - even 2^32 apart - are told apart"""
    a &= (1 << 64) - 1
    return ((((a * 0x9E3779B97F4A7C15) & ((1 << 64) - 1)) >> 51) ^ (a * 131) ^ 0x5B) & 0xFF


def _one_env(actual, expected, args, names, lane_bits, watch, rm, fp):
    if True:
        env = {"args": args, "mem": _mem_byte, "rm": rm.split("/")[0]}
        if rm.endswith("/daz"):
            env["daz"] = True
        if watch:
            env = dict(env, watch=None)
        try:
            e = tcompile.compiled(expected).ev(env)
        except T.Uneval:
            return None
        try:
            if watch:
                env["watch"] = watch
            a = tcompile.compiled(actual, watch).ev(env)
        except T.Poison as p:
            w = {"args": {}, "got": "undefined: %s" % p, "expected": hex(e)}
            if fp:
                w["rounding_mode"] = rm
            for i, v in enumerate(args):
                nm = names[i] if names and i < len(names) else "arg%d" % i
                w["args"][nm] = hex(v)
            return w
        except T.Uneval:
            return None
        if a != e and not ((fp or NUMEQ[0] or NANEQ[0]) and lane_bits in (32, 64) and _same_mod_nan(a, e, actual[1], lane_bits)):
            w = {"args": {}, "got": hex(a), "expected": hex(e)}
            if fp:
                w["rounding_mode"] = rm
            for i, v in enumerate(args):
                nm = names[i] if names and i < len(names) else "arg%d" % i
                w["args"][nm] = hex(v)
            if lane_bits:
                x = a ^ e
                lane = 0
                while x and not x & ((1 << lane_bits) - 1):
                    x >>= lane_bits
                    lane += 1
                w["first_differing_lane"] = lane
            return w
    return None


def interpreted(t):
    """True when every operator in t has an exact evaluation in term.ev"""
    OK = {"const", "arg", "mem", "mxcsr0", "concat", "slice", "rep", "not", "and", "or", "xor", "add", "mul", "sub",
          "neg", "icmp", "fcmp", "select", "popsum", "x86.fpclass", "x86.pshufb", "tabload", "x86.getexp", "x86.getmant", "x86.fixupimm", "x86.range", "x86.permx", "x86.divq.q", "x86.divq.r", "satus", "satss", "fadd", "fsub", "fmul", "fdiv", "call:llvm.sqrt", "call:llvm.fabs", "shlsat", "lshrsat", "ashrsat", "shl", "lshr", "ashr",
          "fshl", "fshr", "call:llvm.ctpop", "call:llvm.ctlz", "call:llvm.cttz", "call:llvm.bswap",
          "call:llvm.bitreverse", "call:llvm.abs", "call:llvm.umin", "call:llvm.umax",
          "call:llvm.smin", "call:llvm.smax", "call:llvm.uadd.sat", "call:llvm.usub.sat",
          "call:llvm.sadd.sat", "call:llvm.ssub.sat", "spec:bit_floor", "spec:bit_ceil",
          "sdiv", "udiv", "srem", "urem", "call:fmodf", "call:fmod"} | T.FP_OPS
    seen = set()
    stack = [t]
    while stack:
        x = stack.pop()
        if not isinstance(x, tuple) or id(x) in seen:
            continue
        seen.add(id(x))
        if x[0] not in OK and not x[0].startswith("fr:") and not x[0].startswith("spec:c_"):
            return False
        for y in x[2:]:
            if isinstance(y, tuple):
                stack.append(y)
    return True


def lane_deps_ok(t, lane_bits, argbits):
    """every output lane i depends only on bits of lane i of each argument
    (arguments narrower than a vector, i.e. scalars, are unrestricted).
    returns (ok, offending description) ; ok None if opaque ops are present"""
    n = t[1] // lane_bits
    for i in range(n):
        lt = T.slice_(t, i * lane_bits, lane_bits)
        if T.contains_op(lt, ("opaque",)):
            return None, "opaque operation in lane %d" % i
        for lf in T.leaves(lt, ("arg",)):
            k, lo, w = lf[2], lf[3], lf[1]
            ab = argbits.get(k)
            if ab is None:
                continue
            alb = ab
            if not (i * alb <= lo and lo + w <= (i + 1) * alb):
                return False, "output lane %d reads bits [%d,%d) of argument %d (lane %d)" % (
                    i, lo, lo + w, k, lo // alb)
    return True, None


class _NoMem:
    accesses = ()


def _lane_local(t, i, vec_args, argspecs):
    """every bit of a vector argument that t mentions belongs to lane i (only then may two lanes be identified
    by renaming: a term that also reads other lanes - or the whole argument - is a different function of the
    inputs in every lane even when the renamed text coincides)"""
    for lf in T.leaves(t, ("arg",)):
        k = lf[2]
        if k in vec_args:
            lb = argspecs[k][1]
            if not (i * lb <= lf[3] and lf[3] + lf[1] <= (i + 1) * lb):
                return False
    return True


def _lane_key(i, ta, te, nl, vec_args, argspecs):
    """key under which lanes with the same form up to lane renaming are decided once"""
    if not i:
        return (id(ta), id(te)) if (_lane_local(ta, 0, vec_args, argspecs) and _lane_local(te, 0, vec_args, argspecs)) else ("lane", 0, id(ta), id(te))
    if i >= nl or not (_lane_local(ta, i, vec_args, argspecs) and _lane_local(te, i, vec_args, argspecs)):
        return ("lane", i, id(ta), id(te))
    shift = {k: i * argspecs[k][1] for k in vec_args}
    return (id(_rebase(ta, shift, vec_args, {})), id(_rebase(te, shift, vec_args, {})))


def _rebase(t, shift, vec_args, memo):
    """rename lane-i argument bits to lane 0 (subtract shift from the bit offsets of vector arguments)"""
    if not isinstance(t, tuple):
        return t
    r = memo.get(id(t))
    if r is not None:
        return r
    if t[0] == "arg":
        r = T.arg(t[2], t[3] - shift[t[2]], t[1]) if t[2] in vec_args and t[3] >= shift[t[2]] else t
    elif t[0] in ("const", "undef"):
        r = t
    else:
        r = T.mk(t[0], t[1], *[_rebase(x, shift, vec_args, memo) for x in t[2:]])
    memo[id(t)] = r
    return r


def exhaustive_lanes(actual, expected, argspecs, names, lane_bits, env_ok=None, watch=None, max_bits=16, max_points=1 << 18,
                     nlanes=None):
    """Truth-table equivalence of two closed forms: when an output lane depends on at most max_bits input
    bits, both forms are evaluated on every assignment of those bits (within the documented domain).
    Complete for that lane; lanes that are the same term up to lane renaming are enumerated once.
    returns ('HOLDS', points) | ('REFUTED', witness) | (None, reason)"""
    if lane_bits is None or actual[1] % lane_bits:
        lane_bits = actual[1]
    n = actual[1] // lane_bits
    nl = nlanes or n        # a k-mask result has more bits than the vector has lanes
    vec_args = {k for k, (b, lb, d) in enumerate(argspecs) if lb and b // lb == nl and nl > 1}
    done = {}
    points = 0
    spent = [0]
    for i in range(n):
        ta = T.slice_(actual, i * lane_bits, lane_bits)
        te = T.slice_(expected, i * lane_bits, lane_bits)
        if ta is te:
            continue
        key = _lane_key(i, ta, te, nl, vec_args, argspecs)
        if key in done:
            continue
        bitsused = {}
        membits = {}        # (pointer argument, byte offset) -> set of bit numbers read
        for t in (ta, te):
            for lf in T.leaves(t, ("arg", "mem")):
                if lf[0] == "mem":
                    # initial memory read through a pointer argument at a constant offset: its bits are
                    # enumerated like argument bits (the pointer itself is held at a fixed address)
                    base = lf[2]
                    if not (isinstance(base, tuple) and base[0] == "arg" and base[1] == 64 and base[3] == 0):
                        return None, "memory leaf with a computed address"
                    for b in range(lf[4], lf[4] + lf[1]):
                        membits.setdefault((base[2], lf[3] + b // 8), set()).add(b % 8)
                    continue
                for b in range(lf[3], lf[3] + lf[1]):
                    bitsused.setdefault(lf[2], set()).add(b)
        for (pk, off) in membits:
            bitsused.pop(pk, None)      # the pointer value is not enumerated
        morder = [(pk, off, b) for (pk, off) in sorted(membits) for b in sorted(membits[(pk, off)])]
        order = [(k, b) for k in sorted(bitsused) for b in sorted(bitsused[k])]
        if len(order) + len(morder) > max_bits:
            return None, "lane %d depends on %d input bits" % (i, len(order) + len(morder))
        nreg = len(order)
        order = order + [("mem", m_) for m_ in morder]
        if points + (1 << len(order)) > max_points:
            return None, "enumeration budget"
        nargs = len(argspecs)
        szl = max(1, (T.size(ta) + T.size(te)) // 8)
        cta, cte = tcompile.compiled(ta, watch), tcompile.compiled(te)
        allowance = 2500000 if (T.has_fp(ta) or T.has_fp(te)) else 12000000
        dazmodes = (False, True) if DAZ_MODE[0] and (T.has_fp(ta) or T.contains_op(ta, ("fcmp",))) else (False,)
        import itertools
        for dazrun, v in itertools.product(dazmodes, range(1 << len(order))):
            if (v & 255) == 0:
                # the truth table is complete, so it gets its own (deterministic) allowance instead of
                # competing with summarisation and the heuristic search for the instance budget
                spent[0] += 256 * szl
                if spent[0] > allowance:
                    return None, "work budget"
            args = [0] * nargs
            memtab = {}
            for j, (k, b) in enumerate(order):
                if (v >> j) & 1:
                    if k == "mem":
                        pk, off, bit = b
                        memtab[0x100000 * (pk + 1) + off] = memtab.get(0x100000 * (pk + 1) + off, 0) | (1 << bit)
                    else:
                        args[k] |= 1 << b
            for (pk, off) in membits:
                args[pk] = 0x100000 * (pk + 1)
            ok = True
            for k, (bts, lb, dom) in enumerate(argspecs):
                if dom is not None and k in bitsused and dom(args[k]) != args[k]:
                    ok = False
                    break
            if not ok:
                continue
            if env_ok is not None:
                # make every lane valid by replicating the enumerated lane where needed
                full = list(args)
                for k in vec_args:
                    lb = argspecs[k][1]
                    lanev = (args[k] >> (min(i, nl - 1) * lb)) & ((1 << lb) - 1)
                    full[k] = sum(lanev << (l * lb) for l in range(nl))
                r_ok = env_ok(full, names)
                if r_ok is None:
                    return None, "domain predicate not applicable"
                if not r_ok:
                    continue
                args = full
            env = {"args": args}
            if membits:
                env["mem"] = (lambda a_, mt=memtab: mt.get(a_, 0))
            if watch:
                env["watch"] = watch
            if dazrun:
                env["daz"] = True
            try:
                e = cte.ev(dict(env, watch=None) if watch else env)
            except T.Uneval:
                return None, "expected form not evaluable"
            try:
                a = cta.ev(env)
            except T.Poison as p:
                w = {"args": {names[k] if k < len(names) else "arg%d" % k: hex(x) for k, x in enumerate(args)},
                     "got": "undefined: %s" % p, "expected": hex(e), "lane": i}
                return "REFUTED", w
            except T.Uneval as ex:
                return None, "not evaluable: %s" % ex
            points += 1
            if a != e:
                w = {"args": {names[k] if k < len(names) else "arg%d" % k: hex(x) for k, x in enumerate(args)},
                     "got": hex(a), "expected": hex(e), "lane": i}
                if membits:
                    w["memory_bytes"] = {"%s+%d" % (names[pk] if pk < len(names) else "arg%d" % pk, off):
                                         hex(memtab.get(0x100000 * (pk + 1) + off, 0)) for (pk, off) in sorted(membits)}
                if dazrun:
                    w["mxcsr"] = "DAZ set (denormal operands read as zero): a mask operation must not depend on the floating-point environment"
                return "REFUTED", w
        done[key] = True
    return "HOLDS", points


def bdd_lanes(actual, expected, argspecs, names, lane_bits, env_ok=None):
    """ROBDD comparison of the two closed forms (lib/bdd.py).  A differing assignment is only reported after
    term.ev has evaluated both forms on it (and it lies in the documented domain)."""
    import bdd
    lb = lane_bits
    nlanes = None
    if lb is None and MASK_LANES[0]:
        lb, nlanes = MASK_LANES[0]
    if lb is None or actual[1] % lb:
        lb = actual[1]
    n = actual[1] // lb
    nl = nlanes or n
    vec_args = {k for k, (b, l_, d) in enumerate(argspecs) if l_ and b // l_ == nl and nl > 1}

    def rebase(i, ta, te):
        return _lane_key(i, ta, te, nl, vec_args, argspecs)
    v, info = bdd.decide(actual, expected, argspecs, lb, nlanes, rebase, max_nodes=BDD_NODES[0])
    if v != "REFUTED":
        return v, info
    args = [info.get(k, 0) for k in range(len(argspecs))]
    for k, (b, l_, dom) in enumerate(argspecs):
        if dom is not None and dom(args[k]) != args[k]:
            return None, "the diagrams differ only outside the documented domain (or also there: not searched)"
    if env_ok is not None:
        # make the other lanes valid by replicating lane values is not attempted: the point must be valid as is
        ok = env_ok(args, names)
        if not ok:
            return None, "the diagrams differ at a point outside the documented domain"
    r = _one_env(actual, expected, args, names, lane_bits, None, "RN", False)
    if r is None:
        return None, "BDD witness not confirmed by the evaluator (internal disagreement: treated as undecided)"
    r["found_by"] = "path to 1 in the XOR of two output-bit diagrams"
    return "REFUTED", r


def _lane_sets(t, vec_args, argspecs, memo):
    """bit mask of the vector lanes whose argument bits t mentions (memoised on term identity)"""
    r = memo.get(id(t))
    if r is not None:
        return r
    if t[0] == "arg":
        r = 0
        if t[2] in vec_args:
            lb = argspecs[t[2]][1]
            for l in range(t[3] // lb, (t[3] + t[1] - 1) // lb + 1):
                r |= 1 << l
    elif t[0] == "const":
        r = 0
    else:
        r = 0
        for x in t[2:]:
            if isinstance(x, tuple):
                r |= _lane_sets(x, vec_args, argspecs, memo)
    memo[id(t)] = r
    return r


def abstract_other_lanes(t, lane, vec_args, argspecs, fresh, lmemo, memo):
    """t with every maximal sub-term that mentions only lanes other than `lane` replaced by a fresh,
    unconstrained variable (the same sub-term always by the same variable).  The result over-approximates t:
    whatever the other lanes hold, the value of t is the value of the result for some assignment of the fresh
    variables - so a statement proved for all assignments of the result holds for t on all inputs."""
    r = memo.get(id(t))
    if r is not None:
        return r
    ls = _lane_sets(t, vec_args, argspecs, lmemo)
    if ls and not (ls >> lane) & 1:
        k = fresh.get(id(t))
        if k is None:
            k = fresh[id(t)] = (len(argspecs) + len(fresh), t)
        r = T.arg(k[0], 0, t[1])
    elif not ls or t[0] in ("arg", "const"):
        r = t
    else:
        r = T.mk(t[0], t[1], *[abstract_other_lanes(x, lane, vec_args, argspecs, fresh, lmemo, memo) if isinstance(x, tuple) else x
                               for x in t[2:]])
    memo[id(t)] = r
    return r


def bdd_lanes_abstract(actual, expected, argspecs, lane_bits):
    """Lane-by-lane ROBDD comparison for forms whose lanes mention other lanes only through conditions
    (early exits of emulation loops): the other lanes are abstracted into free variables.  Only HOLDS is
    meaningful (a difference may be an artefact of the abstraction): returns ('HOLDS', info) or (None, reason)"""
    import bdd
    n = actual[1] // lane_bits
    vec_args = {k for k, (b, l_, d) in enumerate(argspecs) if l_ and b // l_ == n and n > 1}
    lmemo = {}
    nodes = 0
    nfresh = 0
    for i in range(n):
        ta = T.slice_(actual, i * lane_bits, lane_bits)
        te = T.slice_(expected, i * lane_bits, lane_bits)
        if ta is te:
            continue
        if _lane_sets(te, vec_args, argspecs, lmemo) & ~(1 << i):
            return None, "the specification of lane %d mentions other lanes" % i
        fresh = {}
        ab = abstract_other_lanes(ta, i, vec_args, argspecs, fresh, lmemo, {})
        specs = list(argspecs) + [(t_[1], -1, None) for (k_, t_) in sorted(fresh.values(), key=lambda z: z[0])]
        v, info = bdd.decide(ab, te, specs, lane_bits, None, None, max_nodes=BDD_NODES[0])
        if v != "HOLDS":
            return None, "lane %d: %s" % (i, info if v is None else "differs for some value of the abstracted conditions")
        nfresh += len(fresh)
    return "HOLDS", "%d lanes, other lanes abstracted into %d free sub-terms" % (n, nfresh)


def absint_lanes(actual, expected, argspecs, lane_bits, nlanes=None):
    """Decide lane-wise one-operand functions by abstract interpretation under complete case splits
    (lib/absint.py).  returns ('HOLDS', description) or (None, reason)"""
    import absint
    if lane_bits is None or actual[1] % lane_bits:
        lane_bits = actual[1]
    n = actual[1] // lane_bits
    nl = nlanes or n
    vec_args = {k for k, (b, lb, d) in enumerate(argspecs) if lb and b // lb == nl and nl > 1}
    done = {}
    desc = None
    cases = 0
    for i in range(n):
        ta = T.slice_(actual, i * lane_bits, lane_bits)
        te = T.slice_(expected, i * lane_bits, lane_bits)
        if ta is te:
            continue
        key = _lane_key(i, ta, te, nl, vec_args, argspecs)
        if key in done:
            continue
        used = {}
        for t in (ta, te):
            for lf in T.leaves(t, ("arg", "mem")):
                if lf[0] == "mem":
                    return None, "memory leaf"
                used.setdefault(lf[2], [lf[3], lf[3] + lf[1]])
                used[lf[2]][0] = min(used[lf[2]][0], lf[3])
                used[lf[2]][1] = max(used[lf[2]][1], lf[3] + lf[1])
        if len(used) != 1:
            return None, "lane %d depends on %d arguments" % (i, len(used))
        (k, (b0, b1)), = used.items()
        bits, lb, dom = argspecs[k]
        # (a restricted argument domain is ignored: agreement is shown on the whole lane range, a superset)
        W = lb or bits
        off = (b0 // W) * W
        if b1 > off + W or W > 64:
            return None, "lane %d reads more than one %d-bit lane of the argument" % (i, W)
        name, info = absint.decide_unary(ta, te, k, bits, off, W)
        if name is None:
            return None, info
        desc = name
        cases += info
        done[key] = True
    if desc is None:
        return None, "nothing to decide"
    return "HOLDS", "abstract interpretation (known bits x interval) under a complete case split on the %s: %d cases, " \
                    "each resolves both forms to the same constant" % (desc, cases)


def _watch(summary):
    w = {}
    for r_, opn, flags, a, b, loc in getattr(summary, "flagged", ()):
        w.setdefault(id(r_), []).append((opn, flags, a, b, loc))
    return w


MASK_LANES = [None]     # (lane_bits, nlanes) of a mask-typed result, set by the judge (truth-table lane structure)


def compare(actual, expected, summary, argspecs, names, lane_bits, pure=True, env_ok=None):
    """generic verdict for value-returning pure operations"""
    if actual is not None and T.contains_op(actual, ("poison",)):
        return REFUTED, "the result is undefined for every input (shift by >= width or similar): %s" % T.show(actual, 3, names), {
            "note": "undefined behaviour independent of the operand values"}
    v, d, w = _compare(actual, expected, summary, argspecs, names, lane_bits, pure, env_ok)
    if v == HOLDS and getattr(summary, "flagged", None) and actual is not None and interpreted(actual):
        # the value is right wherever it is defined; look for a valid input on which an
        # overflow-flagged (nsw/nuw) operation that feeds the result overflows
        wt = find_witness(actual, actual, argspecs, names, lane_bits, env_ok=env_ok, watch=_watch(summary))
        if wt is not None:
            return REFUTED, "undefined behaviour on a valid input: %s" % wt.get("got"), wt
    return v, d, w


def _compare(actual, expected, summary, argspecs, names, lane_bits, pure=True, env_ok=None):
    if pure and summary.accesses and all(
            (a.kind == "r" and (a.base[0] == "global" or (a.base[0] == "add" and any(x[0] == "global" for x in a.base[2:]))))
            or a.base[0] == "alloca"
            for a in summary.accesses):
        summary = _NoMem      # reads of constant tables are not memory effects of the operation
    if actual is expected:
        if pure and summary.accesses:
            return UNDECIDED, "value matches but the function touches memory", None
        return HOLDS, T.show(actual, 4, names), None
    if actual is None:
        return UNDECIDED, "no return value", None
    if actual[1] == expected[1] and actual[0] == "concat":
        # re-slice the expected form along the actual form's part boundaries
        parts = []
        lo = 0
        for p in actual[2:]:
            parts.append(T.slice_(expected, lo, p[1]))
            lo += p[1]
        if T.concat(parts) is actual:
            if pure and summary.accesses:
                return UNDECIDED, "value matches but the function touches memory", None
            return HOLDS, T.show(actual, 4, names), None
    if actual[1] == expected[1] and expected[0] == "concat":
        parts = []
        lo = 0
        for p in expected[2:]:
            parts.append(T.slice_(actual, lo, p[1]))
            lo += p[1]
        if T.concat(parts) is expected:
            if pure and summary.accesses:
                return UNDECIDED, "value matches but the function touches memory", None
            return HOLDS, T.show(expected, 4, names), None
    if actual[1] == expected[1] and actual[1] <= 64 and lane_bits is None:
        # bit-blast both sides (mask results): bitwise operators distribute
        ba = T.concat([T.slice_(actual, i, 1) for i in range(actual[1])])
        be = T.concat([T.slice_(expected, i, 1) for i in range(actual[1])])
        if ba is be:
            if pure and summary.accesses:
                return UNDECIDED, "value matches but the function touches memory", None
            return HOLDS, T.show(actual, 4, names), None
    if actual[1] != expected[1]:
        return UNDECIDED, "width mismatch %d vs %d" % (actual[1], expected[1]), None
    if interpreted(actual) and interpreted(expected):
        # the truth table, when the lanes are small enough for it, is complete: run it first so that the
        # (shared, deterministic) work budget cannot be used up by the heuristic search
        ex = info = None
        try:
            if lane_bits is None and MASK_LANES[0]:
                ex, info = exhaustive_lanes(actual, expected, argspecs, names, MASK_LANES[0][0], env_ok=env_ok,
                                            watch=_watch(summary), nlanes=MASK_LANES[0][1])
            else:
                ex, info = exhaustive_lanes(actual, expected, argspecs, names, lane_bits, env_ok=env_ok, watch=_watch(summary))
        except T.TooBig:
            ex, info = None, "budget"
        if ex == "HOLDS":
            if pure and summary.accesses:
                return UNDECIDED, "value matches but the function touches memory", None
            return HOLDS, "truth-table equivalence of the closed forms over %d input assignments (every lane depends on <= 16 input bits); %s" % (
                info, T.show(T.slice_(actual, 0, min(actual[1], lane_bits or actual[1])), 2, names)), None
        if ex == "REFUTED":
            return REFUTED, T.show(actual, 5, names), info
        # complete procedures first (they end the analysis of a correct instance early), the heuristic
        # witness search last:
        # (1) abstract interpretation under complete case splits (one-operand lane functions)
        ainfo = None
        try:
            ax, ainfo = absint_lanes(actual, expected, argspecs, lane_bits if lane_bits is not None or not MASK_LANES[0]
                                     else MASK_LANES[0][0], nlanes=(MASK_LANES[0][1] if lane_bits is None and MASK_LANES[0] else None))
        except T.TooBig:
            ax, ainfo = None, "budget"
        if ax == "HOLDS":
            if pure and summary.accesses:
                return UNDECIDED, "value matches but the function touches memory", None
            return HOLDS, ainfo + "; " + T.show(T.slice_(actual, 0, min(actual[1], lane_bits or actual[1])), 2, names), None
        info = "%s; %s" % (info, ainfo)
        # (2) canonical normal form (ROBDD per output bit) of both closed forms: complete for integer forms whose
        # diagrams stay small (adders, comparators, field-wise bit counting); float steps are not blasted
        if not (T.has_fp(actual) or T.has_fp(expected) or T.contains_op(actual, ("fcmp", "mem")) or T.contains_op(expected, ("fcmp", "mem"))):
            try:
                bv, binfo = bdd_lanes(actual, expected, argspecs, names, lane_bits, env_ok)
            except T.TooBig:
                bv, binfo = None, "budget"
            if bv == "HOLDS":
                if pure and summary.accesses:
                    return UNDECIDED, "value matches but the function touches memory", None
                return HOLDS, "identical reduced ordered BDDs for every output bit (%s); %s" % (
                    binfo, T.show(T.slice_(actual, 0, min(actual[1], lane_bits or actual[1])), 2, names)), None
            if bv == "REFUTED":
                return REFUTED, T.show(actual, 5, names), binfo
            info = "%s; BDD: %s" % (info, binfo)
        # (3) heuristic search for a distinguishing input on the boundary lattice
        w = find_witness(actual, expected, argspecs, names, lane_bits, env_ok=env_ok, watch=_watch(summary))
        if w is not None:
            return REFUTED, T.show(actual, 5, names), w
        return UNDECIDED, "forms differ, no separating point found (%s): " % info + T.show(actual, 4, names), None
    return UNDECIDED, T.show(actual, 4, names), None
