"""Reduced ordered binary decision diagrams over the argument bits of a closed form, and a bit-blaster from
the term language (lib/term.py) to vectors of BDDs.

Purpose: a *complete* decision procedure for integer closed forms whose lanes depend on more input bits than
a truth table can enumerate (two 32/64-bit operands, SWAR bit counting, carry-save averages, comparison
emulations).  An ROBDD is a canonical form of a Boolean function for a fixed variable order: the two closed
forms denote the same function of the argument bits iff every output bit has the same node.  When they differ,
a path to the 1-terminal of the XOR of a differing bit is a distinguishing input (it is re-evaluated on both
closed forms by term.ev before it is reported).  Nothing is executed; like the term normaliser this is a
normal-form comparison, only with a canonical normal form.

Variable order: bit position within the lane first (least significant first), argument index second, so that
adders, subtractors and comparators of two operands stay linear in size.  A node budget bounds the work;
running out of it (multipliers, dividers) is 'unsupported', never a verdict."""
import sys

import term as T

if sys.getrecursionlimit() < 6000:
    sys.setrecursionlimit(6000)       # ite recursion is as deep as the number of variables on a path


class Unsupported(Exception):
    pass


class BDD:
    def __init__(self, max_nodes=1500000):
        self.var = [None, None]     # node -> variable level (terminals 0 and 1)
        self.lo = [0, 1]
        self.hi = [0, 1]
        self.unique = {}
        self.cache = {}
        self.max_nodes = max_nodes

    def mk(self, v, lo, hi):
        if lo == hi:
            return lo
        k = (v, lo, hi)
        r = self.unique.get(k)
        if r is None:
            r = len(self.var)
            if r > self.max_nodes:
                raise Unsupported("BDD node budget")
            self.var.append(v)
            self.lo.append(lo)
            self.hi.append(hi)
            self.unique[k] = r
        return r

    def newvar(self, level):
        return self.mk(level, 0, 1)

    def ite(self, f, g, h):
        # iterative-free recursive ite with memo (depth bounded by the number of variables)
        if f == 1:
            return g
        if f == 0:
            return h
        if g == h:
            return g
        if g == 1 and h == 0:
            return f
        k = (f, g, h)
        r = self.cache.get(k)
        if r is not None:
            return r
        var = self.var
        v = var[f]
        vg = var[g] if g > 1 else None
        vh = var[h] if h > 1 else None
        if vg is not None and vg < v:
            v = vg
        if vh is not None and vh < v:
            v = vh
        f0, f1 = (self.lo[f], self.hi[f]) if var[f] == v else (f, f)
        g0, g1 = (self.lo[g], self.hi[g]) if vg == v else (g, g)
        h0, h1 = (self.lo[h], self.hi[h]) if vh == v else (h, h)
        r = self.mk(v, self.ite(f0, g0, h0), self.ite(f1, g1, h1))
        self.cache[k] = r
        return r

    def not_(self, f):
        return self.ite(f, 0, 1)

    def and_(self, f, g):
        if f == g:
            return f
        if f > g:
            f, g = g, f
        return self.ite(f, g, 0)

    def or_(self, f, g):
        if f == g:
            return f
        if f > g:
            f, g = g, f
        return self.ite(f, 1, g)

    def xor(self, f, g):
        if f == g:
            return 0
        if f > g:
            f, g = g, f
        return self.ite(f, self.not_(g), g)

    def sat_one(self, f):
        """one assignment {level: bit} with f == 1 (f != 0)"""
        out = {}
        while f > 1:
            if self.hi[f] != 0:
                out[self.var[f]] = 1
                f = self.hi[f]
            else:
                out[self.var[f]] = 0
                f = self.lo[f]
        return out


class Blaster:
    """term -> list of BDD nodes (least significant bit first)"""

    def __init__(self, levels, max_nodes=1500000):
        self.B = BDD(max_nodes)
        self.levels = levels            # (arg index, bit) -> level
        self.memo = {}
        self.steps = 0

    # --- bit-vector helpers
    def const(self, w, v):
        return [(v >> i) & 1 for i in range(w)]

    def add(self, a, b, cin=0):
        B = self.B
        out = []
        c = cin
        for x, y in zip(a, b):
            xy = B.xor(x, y)
            out.append(B.xor(xy, c))
            c = B.or_(B.and_(x, y), B.and_(xy, c))
        return out, c

    def neg(self, a):
        return self.add([self.B.not_(x) for x in a], self.const(len(a), 0), 1)[0]

    def sub(self, a, b):
        return self.add(a, [self.B.not_(y) for y in b], 1)

    def ult(self, a, b):
        # a < b  <=>  borrow out of a - b
        _, c = self.sub(a, b)
        return self.B.not_(c)

    def eq(self, a, b):
        B = self.B
        r = 1
        for x, y in zip(a, b):
            r = B.and_(r, B.not_(B.xor(x, y)))
        return r

    def flip(self, a):
        return a[:-1] + [self.B.not_(a[-1])]

    def mux(self, c, a, b):
        return [self.B.ite(c, x, y) for x, y in zip(a, b)]

    def icmp(self, pred, a, b):
        B = self.B
        if pred == "eq":
            return self.eq(a, b)
        if pred == "ne":
            return B.not_(self.eq(a, b))
        if pred[0] == "s":
            a, b = self.flip(a), self.flip(b)
        p = pred[1:]
        if p == "lt":
            return self.ult(a, b)
        if p == "gt":
            return self.ult(b, a)
        if p == "le":
            return B.not_(self.ult(b, a))
        if p == "ge":
            return B.not_(self.ult(a, b))
        raise Unsupported("icmp " + pred)

    def shift_const(self, kind, a, n):
        w = len(a)
        if kind == "shl":
            return ([0] * n + a)[:w] if n < w else [0] * w
        fill = a[-1] if kind == "ashr" else 0
        return (a[n:] + [fill] * n)[:w] if n < w else [fill] * w

    def shift_var(self, kind, a, amt, sat):
        """barrel shifter; amounts >= width give 0 / sign fill (the saturating x86 semantics)"""
        w = len(a)
        if not sat:
            raise Unsupported("generic shift by a variable amount (poison when amount >= width)")
        B = self.B
        r = a
        nb = max(1, (w - 1).bit_length())
        for k in range(nb):
            if k >= len(amt):
                break
            r = self.mux(amt[k], self.shift_const(kind, r, 1 << k), r)
        big = 0
        for k in range(nb, len(amt)):
            big = B.or_(big, amt[k])
        # amounts in [w, 2^nb) when w is not a power of two
        if (1 << nb) != w:
            big = B.or_(big, B.not_(self.ult(amt[:nb] + [0], self.const(nb + 1, w))))
        fill = a[-1] if kind == "ashr" else 0
        return self.mux(big, [fill] * w, r)

    def mul(self, a, b):
        w = len(a)
        acc = self.const(w, 0)
        for i in range(w):
            if b[i] == 0:
                continue
            part = ([0] * i + a)[:w]
            if b[i] != 1:
                part = [self.B.and_(b[i], x) for x in part]
            acc = self.add(acc, part)[0]
        return acc

    def popsum(self, w, c, items):
        acc = self.const(w, c)
        for bit, m in items:
            bv = self.blast(bit)
            if len(bv) != 1:
                raise Unsupported("popsum item width")
            m &= (1 << w) - 1
            part = [bv[0] if (m >> i) & 1 else 0 for i in range(w)]
            acc = self.add(acc, part)[0]
        return acc

    # --- the blaster
    def blast(self, t):
        k = id(t)
        r = self.memo.get(k)
        if r is None:
            self.steps += 1
            if self.steps & 255 == 0:
                T.work(64)
            r = self._blast(t)
            if len(r) != t[1]:
                raise Unsupported("width mismatch in %s" % t[0])
            self.memo[k] = r
        return r

    def _blast(self, t):
        o, w = t[0], t[1]
        B = self.B
        bl = self.blast
        if o == "const":
            return self.const(w, t[2])
        if o == "arg":
            out = []
            for i in range(t[3], t[3] + w):
                lv = self.levels.get((t[2], i))
                if lv is None:
                    raise Unsupported("argument bit outside the variable order")
                out.append(B.newvar(lv))
            return out
        if o == "concat":
            out = []
            for p in t[2:]:
                out += bl(p)
            return out
        if o == "slice":
            return bl(t[2])[t[3]:t[3] + w]
        if o == "rep":
            return bl(t[2]) * w
        if o == "not":
            return [B.not_(x) for x in bl(t[2])]
        if o in ("and", "or", "xor"):
            f = {"and": B.and_, "or": B.or_, "xor": B.xor}[o]
            vs = [bl(x) for x in t[2:]]
            r = vs[0]
            for v in vs[1:]:
                r = [f(x, y) for x, y in zip(r, v)]
            return r
        if o == "add":
            vs = [bl(x) for x in t[2:]]
            r = vs[0]
            for v in vs[1:]:
                r = self.add(r, v)[0]
            return r
        if o == "sub":
            return self.sub(bl(t[2]), bl(t[3]))[0]
        if o == "neg":
            return self.neg(bl(t[2]))
        if o == "mul":
            vs = [bl(x) for x in t[2:]]
            # constants last: shift-and-add over the constant's set bits
            vs.sort(key=lambda v: all(b in (0, 1) for b in v))
            r = vs[0]
            for v in vs[1:]:
                if not all(b in (0, 1) for b in v) and not all(b in (0, 1) for b in r):
                    if w > 16:
                        raise Unsupported("multiplication of two variable operands wider than 16 bits")
                r = self.mul(r, v) if all(b in (0, 1) for b in v) else self.mul(v, r)
            return r
        if o == "icmp":
            return [self.icmp(t[2], bl(t[3]), bl(t[4]))]
        if o == "select":
            c = bl(t[2])[0]
            return self.mux(c, bl(t[3]), bl(t[4]))
        if o in ("shl", "lshr", "ashr", "shlsat", "lshrsat", "ashrsat"):
            sat = o.endswith("sat")
            kind = o[:-3] if sat else o
            a = bl(t[2])
            if t[3][0] == "const":
                n = t[3][2]
                if n >= w and not sat:
                    raise Unsupported("poison shift")
                return self.shift_const(kind, a, n)
            return self.shift_var(kind, a, bl(t[3]), sat)
        if o in ("fshl", "fshr"):
            a, b, c = bl(t[2]), bl(t[3]), bl(t[4])
            if w & (w - 1):
                raise Unsupported("funnel shift of a non power-of-two width")
            nb = w.bit_length() - 1
            cc = b + a                      # 2w bits, a is the high half
            amt = c[:nb]
            r = cc
            for k in range(nb):
                if o == "fshl":
                    sh = ([0] * (1 << k) + r)[:2 * w]
                else:
                    sh = (r[(1 << k):] + [0] * (1 << k))[:2 * w]
                r = self.mux(amt[k], sh, r)
            return r[w:] if o == "fshl" else r[:w]
        if o == "popsum":
            return self.popsum(w, t[2], T.popsum_items(t))
        if o == "call:llvm.ctpop":
            a = bl(t[2])
            acc = self.const(w, 0)
            for b_ in a:
                acc = self.add(acc, [b_] + [0] * (w - 1))[0]
            return acc
        if o in ("call:llvm.ctlz", "call:llvm.cttz"):
            a = bl(t[2])
            if len(t) > 3 and not (t[3][0] == "const" and t[3][2] == 0):
                raise Unsupported("zero-undef count")
            seq = list(reversed(a)) if o.endswith("ctlz") else a
            res = self.const(w, w)
            # scan from the far end so that the nearest set bit wins
            for i in reversed(range(w)):
                res = self.mux(seq[i], self.const(w, i), res)
            return res
        if o in ("call:llvm.umin", "call:llvm.umax", "call:llvm.smin", "call:llvm.smax"):
            a, b = bl(t[2]), bl(t[3])
            lt = self.icmp(("s" if o[10] == "s" else "u") + "lt", a, b)
            return self.mux(lt, a, b) if o.endswith("min") else self.mux(lt, b, a)
        if o == "call:llvm.abs":
            a = bl(t[2])
            return self.mux(a[-1], self.neg(a), a)
        if o in ("call:llvm.uadd.sat", "call:llvm.usub.sat"):
            a, b = bl(t[2]), bl(t[3])
            if o.endswith("uadd.sat"):
                s, c = self.add(a, b)
                return self.mux(c, [1] * w, s)
            s, c = self.sub(a, b)
            return self.mux(c, s, [0] * w)
        if o in ("call:llvm.sadd.sat", "call:llvm.ssub.sat"):
            a, b = bl(t[2]), bl(t[3])
            ea, eb = a + [a[-1]], b + [b[-1]]
            s = self.add(ea, eb)[0] if o.endswith("sadd.sat") else self.sub(ea, eb)[0]
            ovf = B.xor(s[w], s[w - 1])
            mx = [B.not_(s[w])] * (w - 1) + [s[w]]
            return self.mux(ovf, mx, s[:w])
        if o in ("satus", "satss"):
            a = bl(t[2])
            sw = len(a)
            neg = a[-1]
            if o == "satus":
                hi_any = 0
                for x in a[w:sw - 1]:
                    hi_any = B.or_(hi_any, x)
                big = B.and_(B.not_(neg), hi_any) if sw > w else 0
                r = self.mux(big, [1] * w, a[:w])
                return self.mux(neg, [0] * w, r)
            # signed saturation to w bits
            fits = 1
            for x in a[w - 1:sw]:
                fits = B.and_(fits, B.not_(B.xor(x, neg)))
            return self.mux(fits, a[:w], [B.not_(neg)] * (w - 1) + [neg])
        if o in ("udiv", "urem", "sdiv", "srem") and t[3][0] != "const" and w <= 16:
            # restoring division on small lanes (the value for a zero divisor is whatever the circuit gives:
            # callers compare under a 'divisor != 0' mask)
            a, b = bl(t[2]), bl(t[3])
            sa = sb = 0
            if o[0] == "s":
                sa, sb = a[-1], b[-1]
                a = self.mux(sa, self.neg(a), a)
                b = self.mux(sb, self.neg(b), b)
            rem = [0] * (w + 1)
            bx = b + [0]
            q = [0] * w
            for i in reversed(range(w)):
                rem = [a[i]] + rem[:-1]
                d, c = self.sub(rem, bx)
                q[i] = c                      # no borrow: rem >= b
                rem = self.mux(c, d, rem)
            r = rem[:w]
            if o == "udiv":
                return q
            if o == "urem":
                return r
            if o == "sdiv":
                return self.mux(B.xor(sa, sb), self.neg(q), q)
            return self.mux(sa, self.neg(r), r)
        if o in ("udiv", "urem", "sdiv", "srem") and t[3][0] == "const" and t[3][2] and not (t[3][2] & (t[3][2] - 1)):
            k_ = t[3][2].bit_length() - 1
            a = bl(t[2])
            if o == "udiv":
                return self.shift_const("lshr", a, k_)
            if o == "urem":
                return a[:k_] + [0] * (w - k_)
            # truncating signed division by 2^k: add (2^k - 1) when negative, then arithmetic shift
            bias = [a[-1]] * k_ + [0] * (w - k_)
            q = self.shift_const("ashr", self.add(a, bias)[0], k_)
            if o == "sdiv":
                return q
            return self.sub(a, self.shift_const("shl", q, k_))[0]
        if o == "call:llvm.bswap":
            a = bl(t[2])
            out = []
            for i in reversed(range(w // 8)):
                out += a[8 * i:8 * i + 8]
            return out
        if o == "call:llvm.bitreverse":
            return list(reversed(bl(t[2])))
        if o == "spec:bit_floor":
            a = bl(t[2])
            out = [0] * w
            seen = 0
            for i in reversed(range(w)):
                out[i] = B.and_(a[i], B.not_(seen))
                seen = B.or_(seen, a[i])
            return out
        raise Unsupported("operator " + o)


def decide(actual, expected, argspecs, lane_bits, nlanes=None, rebase=None, max_nodes=1500000):
    """('HOLDS', info) | ('REFUTED', {arg index: value}) | (None, reason).  Both closed forms must be total
    on the whole argument space (no restricted domain is taken into account: the caller decides what a
    witness outside the documented domain means)."""
    if lane_bits is None or actual[1] % lane_bits:
        lane_bits = actual[1]
    n = actual[1] // lane_bits
    nl = nlanes or n
    done = set()
    lanes_done = 0
    nodes = 0
    for i in range(n):
        ta = T.slice_(actual, i * lane_bits, lane_bits)
        te = T.slice_(expected, i * lane_bits, lane_bits)
        if ta is te:
            continue
        if rebase is not None:
            key = rebase(i, ta, te)
            if key in done:
                continue
        # variable order for this lane: bit position within the lane first, argument second
        bits = {}
        for t in (ta, te):
            for lf in T.leaves(t, ("arg", "mem", "opaque", "undef", "poison")):
                if lf[0] != "arg":
                    return None, "leaf %s" % lf[0]
                for b in range(lf[3], lf[3] + lf[1]):
                    bits[(lf[2], b)] = True
        if len(bits) > 1100:
            return None, "lane %d depends on %d input bits" % (i, len(bits))

        def keyf(kb):
            # lane first (forms with cross-lane conditions - reductions over all lanes - stay linear when each
            # lane's bits are adjacent), then bit position within the lane, then the argument
            k_, b_ = kb
            lb = argspecs[k_][1] if k_ < len(argspecs) else 0
            if lb is not None and lb < 0:
                return (1 << 30, k_, b_, 0)       # abstraction variables: below every real argument bit
            return ((b_ // lb) if lb else 0, (b_ % lb) if lb else b_, k_, b_)
        order = sorted(bits, key=keyf)
        levels = {kb: j for j, kb in enumerate(order)}
        bl = Blaster(levels, max_nodes)
        try:
            va = bl.blast(ta)
            ve = bl.blast(te)
        except Unsupported as e:
            return None, str(e)
        except RecursionError:
            return None, "recursion depth"
        nodes += len(bl.B.var)
        if va != ve:
            for x, y in zip(va, ve):
                if x != y:
                    asg = bl.B.sat_one(bl.B.xor(x, y))
                    vals = {}
                    for (k_, b_), lv in levels.items():
                        if asg.get(lv):
                            vals[k_] = vals.get(k_, 0) | (1 << b_)
                    return "REFUTED", vals
        lanes_done += 1
        if rebase is not None:
            done.add(key)
    return "HOLDS", "%d lane form(s), %d BDD nodes" % (lanes_done, nodes)


def satisfy(t, argspecs, max_nodes=400000):
    """t is a 1-bit term: ('SAT', {arg index: value}) | ('UNSAT', nodes) | (None, reason).  Used for implications
    between a path condition and an address equality (is there an input on which the condition holds and the
    address is none of the allowed ones?)."""
    bits = {}
    for lf in T.leaves(t, ("arg", "mem", "opaque", "undef", "poison")):
        if lf[0] != "arg":
            return None, "leaf %s" % lf[0]
        for b in range(lf[3], lf[3] + lf[1]):
            bits[(lf[2], b)] = True
    if len(bits) > 1100:
        return None, "%d input bits" % len(bits)

    def keyf(kb):
        k_, b_ = kb
        lb = argspecs[k_][1] if k_ < len(argspecs) else 0
        return ((b_ % lb) if lb else b_, (b_ // lb) if lb else 0, k_)
    order = sorted(bits, key=keyf)
    levels = {kb: j for j, kb in enumerate(order)}
    bl = Blaster(levels, max_nodes)
    try:
        f = bl.blast(t)[0]
    except Unsupported as e:
        return None, str(e)
    except RecursionError:
        return None, "recursion depth"
    if f == 0:
        return "UNSAT", len(bl.B.var)
    asg = bl.B.sat_one(f)
    vals = {}
    for (k_, b_), lv in levels.items():
        if asg.get(lv):
            vals[k_] = vals.get(k_, 0) | (1 << b_)
    return "SAT", vals
