"""Drive E3 for a set of families over configurations and types."""
import json
import os
import sys
import hashlib

sys.path.insert(0, os.path.join(os.path.dirname(os.path.abspath(__file__)), "..", "spec"))

import term as T
import irterm
import lanecheck
from lanecheck import Ctx, mask_rep, mask_arg_term
from common import (HOLDS, REFUTED, UNDECIDED, MISSING, Broken, all_configs, pmap, procmap,
                    config_by_name, cache_path, tool_hash)
import e3
import ops
import isa


OVERRIDE = [None]


UBMODE = [False]
STRICTFP = [False]      # compile with -frounding-math: float steps stay explicit (constrained intrinsics), nothing is
                        # folded under the assumption of the default floating-point environment


def build_tus(cfgs, families, type_filter=None, header_extra=(), tier="quick"):
    ops.TIER = tier
    """returns list of job dicts ready for analysis"""
    jobs = []
    tus = []
    for cfg in cfgs:
        types = e3.provided_types(cfg)
        for vt in types:
            if type_filter and not type_filter(vt, cfg):
                continue
            for fam in families:
                insts = ops.FAMILIES[fam](vt, cfg)
                if not insts:
                    continue
                ws = []
                seen = set()
                for i in insts:
                    if i.fname in seen:
                        continue            # several instances share one wrapper (run-time n)
                    seen.add(i.fname)
                    ws.append((i.fname, ops.wrapper_line(i), i.key(cfg, vt)))
                if UBMODE[0]:
                    # E4: no UB-exploiting pass has run (always_inline + sroa only)
                    tu = e3.TU(cfg, "%s.%s.ub" % (vt.name, fam), ops.header(vt, header_extra), ws,
                               opt=("-O1", "-Xclang", "-disable-llvm-passes"), post="always-inline,cgscc(inline),function(sroa),cgscc(inline),function(sroa)")
                elif STRICTFP[0]:
                    tu = e3.TU(cfg, "%s.%s.strictfp" % (vt.name, fam), ops.header(vt, header_extra), ws,
                               opt=("-O2", "-frounding-math"))
                else:
                    tu = e3.TU(cfg, "%s.%s" % (vt.name, fam), ops.header(vt, header_extra), ws)
                tus.append((tu, cfg, vt, fam))

    def b(x):
        tu, cfg, vt, fam = x
        try:
            js, missing = tu.build()
            return {"cfg": cfg.name, "named": cfg.named, "type": vt.name, "fam": fam, "json": js,
                    "missing": missing, "tier": tier, "prop": PROP[0], "override": OVERRIDE[0], "keytag": KEYTAG[0],
                    "strictfp": STRICTFP[0]}
        except Broken as e:
            return {"cfg": cfg.name, "type": vt.name, "fam": fam, "broken": str(e)}
    return pmap(b, tus)


PROP = [None]
KEYTAG = [None]


def _vt_by_name(name):
    for v in e3.candidate_types():
        if v.name == name:
            return v
    raise KeyError(name)


def make_ctx(vt, inst, f):
    """bind IR arguments to terms, applying the representation invariants of
    mask arguments (assumed on inputs, guaranteed on outputs)"""
    c = Ctx(vt, inst, f)
    c.boolmem = []
    argterms = []
    argspecs = []
    names = []
    for k, ((kind, nm), a) in enumerate(zip(inst.args, f["args"])):
        bits = a["t"].get("bits", 64)
        c.argidx[nm] = k
        c.argkinds[nm] = kind
        names.append(nm)
        if kind in ("M", "B"):
            rep = mask_rep(a["t"], vt)
            c.maskrep[nm] = rep
            t = mask_arg_term(k, rep, vt)
            lb = rep[1] if rep[0] == "lane" else (1 if rep[0] == "bool" else 1)
            argspecs.append((bits, 1 if rep[0] != "lane" else rep[1], None))
        elif kind == "LL8":
            B = vt.eb
            t = T.zext(T.arg(k, 0, B.bit_length()), bits)   # 0 <= s < 2*bits
            argspecs.append((bits, bits, (lambda v, B=B: v % (B + 1))))
        elif kind == "BA":
            t = T.arg(k, 0, bits)
            c.boolmem.append(k)
            argspecs.append((bits, 0, None))
        elif kind == "VA":
            # per-lane shift amounts: precondition 0 <= amount <= bits in every lane.
            # encoded as zext of the low 8 bits (superset) ; witnesses stay in [0,bits]
            eb = vt.eb
            t = T.concat([T.zext(T.arg(k, i * eb, min(eb.bit_length(), eb)), eb) for i in range(vt.n)])
            def dom(v, eb=eb, n=vt.n):
                r = 0
                for i in range(n):
                    r |= (((v >> (i * eb)) & ((1 << eb) - 1)) % (eb + 1)) << (i * eb)
                return r
            argspecs.append((bits, eb, dom))
        elif kind == "VI2":
            t = T.arg(k, 0, bits)
            argspecs.append((bits, vt.eb, None))
            c.args[nm] = t
            argterms.append(t)
            continue
        elif kind in ("V", "VI"):
            t = T.arg(k, 0, bits)
            argspecs.append((bits, vt.eb if kind == "V" else (bits // vt.n), None))
        else:
            t = T.arg(k, 0, bits)
            argspecs.append((bits, bits, None))
        c.args[nm] = t
        argterms.append(t)
    if len(f["args"]) != len(inst.args):
        raise Broken("wrapper %s: IR has %d arguments, catalogue %d" % (inst.fname, len(f["args"]), len(inst.args)))
    if inst.ret in ("M", "B"):
        rvt = vt
        tg = getattr(inst, "target", None)
        if tg:
            rvt = _vt_by_name(tg)
        c.retrep = mask_rep(f["ret"], rvt)
    c.names = names
    c.argterms = argterms
    c.argspecs = argspecs
    return c


def judge_default(ctx, inst, S):
    vt = ctx.vt
    if S.flags & {"loop"}:
        return UNDECIDED, "loop in optimised body (emulation)", None, None
    actual = S.ret
    expected = inst.expect(ctx)
    lane_bits = vt.eb if (inst.ret == "V" or (inst.ret == "S" and vt.is_float)) else None
    argspecs = ctx.argspecs
    ld = getattr(inst, "lane_dom", None)
    if ld is not None:
        # restrict every lane of the vector arguments to the documented domain
        def mkdom(bits, lb):
            def dom(v):
                r = 0
                for i in range(bits // lb):
                    r |= ld((v >> (i * lb)) & ((1 << lb) - 1)) << (i * lb)
                return r
            return dom
        argspecs = [(b, lb, mkdom(b, lb) if lb else None) for (b, lb, d) in argspecs]
    lanecheck.MASK_LANES[0] = None
    if inst.ret == "M" and ctx.retrep and actual is not None and vt.n > 1:
        if ctx.retrep[0] == "lane" and actual[1] == ctx.retrep[1] * vt.n:
            lanecheck.MASK_LANES[0] = (ctx.retrep[1], vt.n)
        elif ctx.retrep[0] == "k":
            lanecheck.MASK_LANES[0] = (1, vt.n)
    lanecheck.FP_SWEEP[0] = bool(vt.is_float)
    try:
        v, detail, wit = lanecheck.compare(actual, expected, S, argspecs, ctx.names, lane_bits, inst.pure,
                                           env_ok=getattr(inst, "env_ok", None))
    finally:
        lanecheck.MASK_LANES[0] = None
        lanecheck.FP_SWEEP[0] = False
    rule = "normal form of %s == %s" % (inst.op, T.show(expected, 3, ctx.names))
    if v == UNDECIDED and actual is not None:
        # alternative closed forms of the same specification (each with its derivation in spec/ops.py):
        # identity with one of them is a proof; refutation always uses the primary form
        for alt in getattr(inst, "expect_alt", ()):
            e2 = alt(ctx)
            if e2 is actual and not (inst.pure and [a for a in S.accesses if a.kind == "w"]):
                v, detail, wit = HOLDS, "identical to the alternative closed form of the specification: " + T.show(e2, 3, ctx.names), None
                break
    if v == HOLDS and S.unknown:
        v, detail = UNDECIDED, "matches but body contains unmodelled %s" % S.unknown[:3]
    if v == UNDECIDED and S.unknown:
        detail = "unmodelled %s; %s" % (sorted(set(S.unknown))[:3], detail)
    return v, detail, rule, wit


def amount_split(I, vt, inst, f, ctx, S):
    """Complete case split on a small-domain operand (shift / rotate amount): (1) the closed form of
    output lane i mentions, of both operands, only lane i (syntactic, hence a sound bound on the semantic
    dependence), and of the amount only its low nb bits; (2) for every value of those bits inside the documented
    domain the amount is replaced by that constant in every lane, the wrapper is summarised again and the
    result must agree with the specification for that constant (identical normal form or truth table).
    returns (HOLDS, text) or (None, reason)"""
    nm = inst.amount_arg
    k = ctx.argidx[nm]
    bits, lb, dom = ctx.argspecs[k]
    actual = S.ret
    if actual is None or S.flags & {"loop", "call", "asm", "indirect-call"}:
        return None, "unmodelled"
    eb = vt.eb
    n = vt.n
    vec_amount = bool(lb) and bits // lb == n and n > 1 and ctx.argkinds[nm] in ("V", "VA")
    # (1) lane structure and amount bits used
    used = 0
    for i in range(n):
        lt = T.slice_(actual, i * eb, eb)
        for lf in T.leaves(lt, ("arg", "mem")):
            if lf[0] == "mem":
                return None, "memory leaf"
            ai = lf[2]
            if ai == k:
                if vec_amount:
                    if not (i * lb <= lf[3] and lf[3] + lf[1] <= (i + 1) * lb):
                        return None, "lane %d reads the amount of another lane" % i
                    used |= ((1 << lf[1]) - 1) << (lf[3] - i * lb)
                else:
                    used |= ((1 << lf[1]) - 1) << lf[3]
            else:
                b2, lb2, d2 = ctx.argspecs[ai]
                if lb2 and b2 // lb2 == n and n > 1 and not (i * lb2 <= lf[3] and lf[3] + lf[1] <= (i + 1) * lb2):
                    return None, "lane %d reads another lane of operand %d" % (i, ai)
    nb = used.bit_length()
    if used != (1 << nb) - 1 and used:
        nb = used.bit_length()
    if nb > 7:
        return None, "the amount contributes %d bits" % nb
    # the specification must not look at further amount bits either
    e0 = inst.expect(ctx)
    for lf in T.leaves(e0, ("arg",)):
        if lf[2] == k:
            off = lf[3] % lb if vec_amount else lf[3]
            if off + lf[1] > nb:
                nb = off + lf[1]
    if nb > 7:
        return None, "the specification reads %d amount bits" % nb
    cases = 0
    for val in range(1 << nb):
        if vec_amount:
            full = sum(val << (l * lb) for l in range(n))
        else:
            full = val
        if dom is not None and dom(full) != full:
            continue
        ctx2 = make_ctx(vt, inst, f)
        ctx2.argterms[k] = T.const(ctx2.argterms[k][1], full)
        ctx2.args[nm] = ctx2.argterms[k]
        S2 = I.summarise(inst.fname, ctx2.argterms, ctx2.boolmem)
        if S2.ret is None or S2.flags & {"loop", "call", "asm", "indirect-call"}:
            return None, "amount %d: unmodelled" % val
        exp2 = inst.expect(ctx2)
        specs = [(b_, l_, None) for (b_, l_, d_) in ctx2.argspecs]
        v2, d2, w2 = lanecheck.compare(S2.ret, exp2, S2, specs, ctx2.names, eb, inst.pure)
        if v2 != HOLDS:
            return None, "amount %d: %s %s" % (val, v2, (d2 or "")[:120])
        cases += 1
    if not cases:
        return None, "no amount in the domain"
    return HOLDS, ("complete case split on the %d-bit amount: %d values in the documented domain, each substituted as a "
                   "constant and decided (identical normal form / truth table); output lane i mentions only lane i of "
                   "the operands" % (nb, cases))


def analyse_job(job):
    """worker: returns list of (key, verdict, detail, rule, witness)"""
    if "broken" in job:
        return {"broken": job["broken"], "res": []}
    T.reset()
    vt = _vt_by_name(job["type"])
    cfg = config_by_name(job["cfg"]) if False else None
    with open(job["json"]) as fh:
        m = json.load(fh)
    class _C:  # minimal cfg stand-in for family generators
        name = job["cfg"]
        named = job.get("named", [])
    ops.TIER = job.get("tier", "quick")
    prop = job.get("prop")
    # masks are vectors of booleans: their operations must not depend on the floating-point environment, so
    # C03 also evaluates closed forms that contain float compares with MXCSR.DAZ set
    lanecheck.DAZ_MODE[0] = (prop == "C03") or vt.is_int      # (integer operations likewise: agent9_C02)
    lanecheck.BDD_NODES[0] = 250000 if job.get("tier", "quick") == "quick" else 1500000
    lanecheck.GUARD_FCMP[0] = job.get("tier", "quick") == "quick"
    insts = ops.FAMILIES[job["fam"]](vt, _C)
    if prop:
        insts = [i for i in insts if not hasattr(i, "judges") or prop in i.judges]
    miss_fn = set()
    for k, msg in job["missing"]:
        pass
    miss = {json.dumps(k, sort_keys=True): msg for k, msg in job["missing"]}
    I = irterm.Interp(m, isa.TABLE)
    out = []
    unknown = {}
    for inst in insts:
        key = inst.key(_C, vt)
        if getattr(inst, "clause", None) and not job.get("override"):
            key["clause"] = inst.clause
        ks = json.dumps(key, sort_keys=True)
        if job.get("strictfp"):
            key["fpmodel"] = "rounding-math"
        if job.get("keytag") and "clause" not in key:
            key["clause"] = job["keytag"]       # (after ks: the missing-wrapper keys carry no tag)
        if ks not in miss and getattr(inst, "subst", None) is not None:
            # shared wrapper: missing is recorded under the first instance's key
            for k2, msg2 in job["missing"]:
                if k2.get("op") == key.get("op") and k2.get("type") == key.get("type"):
                    ks = json.dumps(k2, sort_keys=True)
        if ks in miss:
            if getattr(inst, "optional", False):
                continue
            out.append((key, MISSING, miss[ks], "wrapper must compile", None))
            continue
        if getattr(inst, "wrapper_only", False) and ks not in miss:
            continue
        f = m["functions"].get(inst.fname)
        if f is None or f["decl"]:
            out.append((key, MISSING, "wrapper not emitted", "wrapper must compile", None))
            continue
        try:
            T.set_budget(nodes=getattr(inst, "budget_nodes", 250000), seconds=getattr(inst, "budget_s", 6))
            ctx = make_ctx(vt, inst, f)
            sub = getattr(inst, "subst", None)
            if sub:
                for nm, val in sub.items():
                    k = ctx.argidx[nm]
                    ctx.argterms[k] = T.const(ctx.argterms[k][1], val)
                    ctx.args[nm] = ctx.argterms[k]
            S = I.summarise(inst.fname, ctx.argterms, ctx.boolmem)
            ctx.summary = S
            ctx.module = m
            if getattr(inst, "optional", False) and not job.get("override") == "judge_parity" and any(
                    nm.startswith("_ZN4avel") and m["functions"].get(nm, {}).get("decl") for nm, _a, _l in S.calls):
                continue        # operation declared but not provided for this type pair
            for u in S.unknown:
                unknown[u] = unknown.get(u, 0) + 1
            j = inst.judge or judge_default
            if prop and getattr(inst, "judges", None) and inst.judges.get(prop):
                j = inst.judges[prop]
            if job.get("override"):
                j = getattr(ops, job["override"])
            v, detail, rule, wit = j(ctx, inst, S)
            if v == UNDECIDED and getattr(inst, "amount_arg", None) and not job.get("override"):
                T.set_budget(nodes=600000, seconds=40 if job.get("tier") != "quick" else 15)
                try:
                    v3, d3 = amount_split(I, vt, inst, f, ctx, S)
                except T.TooBig:
                    v3, d3 = None, "budget"
                if v3 == HOLDS:
                    v, detail = HOLDS, d3
                else:
                    detail = "%s [amount split: %s]" % ((detail or "")[:300], d3)
            if v == REFUTED and prop:
                # a listed finding must not hide a different violation of the same instance: search again
                # with the finding's inputs excluded
                import common as _cm
                kf = _cm.match_known(prop, dict(key, detail=detail or "", rule=rule or "",
                                               witness=json.dumps(wit, sort_keys=True)))
                if kf and (kf.get("avoid_inputs") or kf.get("search_domains")):
                    av = kf.get("avoid_inputs", {})
                    doms = kf.get("search_domains")
                    old_ok = getattr(inst, "env_ok", None)

                    def in_dom(dm, vals, names, vt=vt):
                        """every lane of every named argument satisfies the finding's re-search domain:
                        {"arg": {"fp_biased_exp": [lo, hi]} | {"signed": [lo, hi]}}"""
                        for nm, pr in dm.items():
                            if nm not in names:
                                continue
                            x = vals[names.index(nm)]
                            for i in range(vt.n):
                                ln = (x >> (i * vt.eb)) & ((1 << vt.eb) - 1)
                                if "fp_biased_exp" in pr:
                                    mb = 23 if vt.eb == 32 else 52
                                    be = (ln >> mb) & ((1 << (vt.eb - 1 - mb)) - 1)
                                    if not (pr["fp_biased_exp"][0] <= be <= pr["fp_biased_exp"][1]):
                                        return False
                                if "signed" in pr:
                                    sv = ln - (1 << vt.eb) if ln >> (vt.eb - 1) else ln
                                    if not (pr["signed"][0] <= sv <= pr["signed"][1]):
                                        return False
                        return True

                    def ok2(vals, names, av=av, old_ok=old_ok, vt=vt):
                        if old_ok is not None:
                            r0 = old_ok(vals, names)
                            if not r0:
                                return r0
                        for nm, bad in av.items():
                            if nm in names:
                                x = vals[names.index(nm)]
                                lanes = [(x >> (i * vt.eb)) & ((1 << vt.eb) - 1) for i in range(max(1, x.bit_length() // vt.eb + 1))]
                                if any(int(b, 16) in lanes for b in bad):
                                    return False
                        if doms is not None:
                            key_ = "%d" % vt.eb
                            dl = doms.get(key_, doms.get("any", []))
                            if not any(in_dom(dm, vals, names) for dm in dl):
                                return False
                        return True
                    inst.env_ok = ok2
                    try:
                        v2, d2, r2, w2 = j(ctx, inst, S)
                    finally:
                        inst.env_ok = old_ok
                    # a refutation found inside the finding's search_domains is by construction not the
                    # listed finding (the listed ranges lie outside them)
                    if v2 == REFUTED and (doms is not None or not _cm.match_known(
                            prop, dict(key, detail=d2 or "", rule=r2 or "", witness=json.dumps(w2, sort_keys=True)))):
                        key["clause"] = key.get("clause", "value") + "+outside-known-finding"
                        v, detail, rule, wit = v2, d2, r2, w2
                    elif v2 == REFUTED:
                        # the re-search landed on another listed finding: report that one too
                        out.append((dict(key, also="second finding on the same instance"), v2, d2, r2, w2))
        except Broken:
            raise
        except T.TooBig as e:
            v, detail, rule, wit = UNDECIDED, "closed form too large for the analysis budget (%s)" % e, None, None
        except Exception as e:  # analysis error -> undecided with reason, never a pass
            import traceback
            v, detail, rule, wit = UNDECIDED, "analysis error: %s: %s" % (type(e).__name__, str(e)[:200]), None, None
            unknown["EXC:" + traceback.format_exc().splitlines()[-3].strip()[:120]] = 1
        out.append((key, v, detail, rule, wit))
        T.set_budget(None, None)
        if len(T._intern) > 1500000:
            T.reset()
            I = irterm.Interp(m, isa.TABLE)
    return {"res": out, "unknown": unknown}


def run_families(res, cfgs, families, type_filter=None, override=None, keytag=None, ubmode=False, tier=None, strictfp=False):
    e3.ensure_tools()
    PROP[0] = res.prop
    OVERRIDE[0] = override
    UBMODE[0] = ubmode
    STRICTFP[0] = strictfp
    KEYTAG[0] = keytag
    jobs = build_tus(cfgs, families, type_filter, tier=tier or res.tier)
    # identical IR across configurations is analysed once
    results = procmap(analyse_job, jobs)
    unknown = {}
    for job, r in zip(jobs, results):
        if "broken" in r:
            res.brk(r["broken"])
            continue
        for key, v, detail, rule, wit in r["res"]:
            if keytag and "clause" not in key:
                key = dict(key, clause=keytag)
            res.add(key, v, detail, rule, wit)
        for u, n in r.get("unknown", {}).items():
            unknown[u] = unknown.get(u, 0) + n
    res.extra.setdefault("unmodelled_constructs", {}).update(unknown)
    res.extra["configurations"] = [c.name for c in cfgs]
    res.extra["translation_units"] = res.extra.get("translation_units", 0) + len(jobs)
    UBMODE[0] = False
    STRICTFP[0] = False
    return jobs
