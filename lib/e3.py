"""E3 pipeline: generated wrapper TUs -> clang -O2 -emit-llvm -> irdump JSON.

One TU per (configuration, vector type, family).  Every wrapper is exactly one
source line, so a compile error maps back to the instance, which is then
reported MISSING (not skipped silently) and the TU is rebuilt without it.
"""
import hashlib
import json
import os
import re
import shutil

from common import (CACHE, CLANGXX, INC, VERIF, Broken, cache_path, sh, BUILD)

IRDUMP = os.path.join(BUILD, "irdump")


class VT:
    """vector type descriptor"""

    def __init__(self, kind, eb, n):
        self.kind = kind      # 'u' 'i' 'f'
        self.eb = eb
        self.n = n
        self.name = "vec%dx%d%s" % (n, eb, kind)
        self.mask = "mask%dx%d%s" % (n, eb, kind)
        self.arr = "arr%dx%d%s" % (n, eb, kind)
        self.bits = eb * n
        self.is_int = kind in "ui"
        self.signed = kind == "i"
        self.is_float = kind == "f"
        if kind == "f":
            self.scalar = "float" if eb == 32 else "double"
        else:
            self.scalar = "std::%sint%d_t" % ("u" if kind == "u" else "", eb)
        self.cpp = "avel::Vector<%s, %d>" % (self.scalar, n)

    @property
    def unsigned_name(self):
        return "vec%dx%du" % (self.n, self.eb)

    @property
    def signed_name(self):
        return "vec%dx%di" % (self.n, self.eb)

    def __repr__(self):
        return self.name


def candidate_types():
    out = []
    for n in (1, 2, 4, 8, 16, 32, 64):
        for eb in (8, 16, 32, 64):
            for kind in "uif":
                if kind == "f" and eb < 32:
                    continue
                out.append(VT(kind, eb, n))
    return out


def _compile_ir(src, out_ll, cfg, std="c++11", opt=("-O2",), extra=()):
    cmd = [CLANGXX, "-std=" + std, "-DAVEL_FORCE_INLINE", "-I", INC,
           "-Wno-undefined-inline", "-Wno-unused-value", "-ferror-limit=0",
           "-fno-exceptions",
           "-S", "-emit-llvm", "-o", out_ll, src]
    cmd += list(opt) + cfg.defines + cfg.flags + list(extra)
    return sh(cmd)


_ERR = re.compile(r"^([^:\n]+):(\d+):(\d+): (?:fatal )?error: (.*)$", re.M)


def provided_types(cfg):
    """Complete Vector<T,N> specialisations in this configuration, read from
    compile-time constants in the IR of a probe TU (nothing is executed)."""
    d = cache_path("types", cfg.name, " ".join(cfg.named))
    res = os.path.join(d, "types.json")
    if os.path.exists(res):
        with open(res) as fh:
            names = json.load(fh)
        cands = {v.name: v for v in candidate_types()}
        return [cands[n] for n in names]
    os.makedirs(d, exist_ok=True)
    src = os.path.join(d, "probe.%d.cpp" % os.getpid())      # per process: concurrent runs share the cache directory
    lines = ["#include <avel/Avel.hpp>",
             "template<class T, class = void> struct is_complete_ { static const bool value = false; };",
             "template<class T> struct is_complete_<T, decltype(void(sizeof(T)))> { static const bool value = true; };"]
    for v in candidate_types():
        lines.append('extern "C" { extern const bool has_%s; const bool has_%s = is_complete_<%s>::value; }'
                     % (v.name, v.name, v.cpp))
    with open(src, "w") as fh:
        fh.write("\n".join(lines) + "\n")
    ll = os.path.join(d, "probe.%d.ll" % os.getpid())
    r = _compile_ir(src, ll, cfg, opt=("-O0",))
    if r.returncode != 0:
        raise Broken("type probe does not compile for %s: %s" % (cfg.name, r.stderr[-600:]))
    names = []
    txt = open(ll).read()
    for v in candidate_types():
        m = re.search(r"@has_%s = .*constant i8 (\d)" % v.name, txt)
        if not m:
            raise Broken("type probe: constant has_%s not found" % v.name)
        if m.group(1) == "1":
            names.append(v.name)
    with open(res + ".%d" % os.getpid(), "w") as fh:
        json.dump(names, fh)
    os.replace(res + ".%d" % os.getpid(), res)      # atomic: a concurrent reader sees the whole file or none
    cands = {v.name: v for v in candidate_types()}
    return [cands[n] for n in names]


class TU:
    """a wrapper translation unit: header lines + one line per wrapper"""

    def __init__(self, cfg, tag, header, wrappers, std="c++11", opt=("-O2",), extra=(), post=None):
        self.post = post
        self.cfg = cfg
        self.tag = tag
        self.header = header
        self.wrappers = wrappers      # list of (fname, line, key)
        self.std = std
        self.opt = tuple(opt)
        self.extra = tuple(extra)

    def build(self):
        """returns (json_path, missing) ; missing = [(key, message)]"""
        text_id = hashlib.sha256(("\n".join(self.header) + "\n" + "\n".join(
            w[1] for w in self.wrappers)).encode()).hexdigest()
        d = cache_path("tu", self.cfg.name, " ".join(self.cfg.named), self.tag, self.std,
                       " ".join(self.opt), " ".join(self.extra), text_id, self.post or "")
        js = os.path.join(d, "m.json")
        ms = os.path.join(d, "missing.json")
        if os.path.exists(js) and os.path.exists(ms):
            with open(ms) as fh:
                return js, [tuple(x) for x in json.load(fh)]
        os.makedirs(d, exist_ok=True)
        live = list(self.wrappers)
        missing = []
        for attempt in range(6):
            src = os.path.join(d, "w.cpp")
            with open(src, "w") as fh:
                fh.write("\n".join(self.header) + "\n")
                for w in live:
                    fh.write(w[1] + "\n")
            base = len(self.header)
            ll = os.path.join(d, "w.ll")
            r = _compile_ir(src, ll, self.cfg, self.std, self.opt, self.extra)
            if r.returncode == 0:
                break
            bad = {}
            for m in _ERR.finditer(r.stderr):
                if os.path.abspath(m.group(1)) == os.path.abspath(src):
                    ln = int(m.group(2)) - base - 1
                    if 0 <= ln < len(live):
                        bad.setdefault(ln, m.group(4))
            if not bad:
                # error located in a header only: find the instantiating wrapper
                # through "w.cpp:LINE:...: note: in instantiation" lines
                for m in re.finditer(r"^%s:(\d+):\d+: note: " % re.escape(src), r.stderr, re.M):
                    ln = int(m.group(1)) - base - 1
                    if 0 <= ln < len(live):
                        bad.setdefault(ln, "error in instantiation (see header diagnostics)")
            if not bad:
                # the diagnostics name no wrapper line (e.g. "always_inline function requires target
                # feature ..." reported inside a header): isolate the failing wrappers by bisection
                first = _ERR.search(r.stderr)
                msg = first.group(4)[:300] if first else r.stderr[-300:]
                for ln in self._bisect(d, live, list(range(len(live)))):
                    bad[ln] = msg
            if not bad:
                raise Broken("wrapper TU %s/%s does not compile and no wrapper line is "
                             "implicated: %s" % (self.cfg.name, self.tag, r.stderr[-1500:]))
            for ln in sorted(bad):
                missing.append((live[ln][2], bad[ln][:300]))
            live = [w for i, w in enumerate(live) if i not in bad]
        else:
            raise Broken("wrapper TU %s/%s: could not isolate failing wrappers" % (self.cfg.name, self.tag))
        if not self.post and self.opt and self.opt[0] == "-O2":
            # a wrapper that still calls a function defined in the module (an AVEL routine clang's cost model
            # left out of line) would make the summary opaque: inline it (-O2 again with an unbounded
            # inlining threshold; modules without such calls are left exactly as clang produced them)
            txt = open(ll).read()
            defined = set(re.findall(r'^define [^@\n]*@("[^"]+"|[\w.$]+)\(', txt, re.M))
            called = set(re.findall(r'(?:call|invoke) [^@\n]*@("[^"]+"|[\w.$]+)\(', txt))
            if defined & called:
                ll2 = os.path.join(d, "w.inl.ll")
                r = sh(["opt-14", "-S", "-O2", "-inline-threshold=1000000", ll, "-o", ll2])
                if r.returncode == 0:
                    ll = ll2
        if self.post:
            ll2 = os.path.join(d, "w.post.ll")
            r = sh(["opt-14", "-S", "-passes=" + self.post, ll, "-o", ll2])
            if r.returncode != 0:
                raise Broken("opt -passes=%s failed: %s" % (self.post, r.stderr[-300:]))
            ll = ll2
        r = sh([IRDUMP, ll])
        if r.returncode != 0:
            raise Broken("irdump failed on %s: %s" % (ll, r.stderr[-400:]))
        with open(js + ".tmp", "w") as fh:
            fh.write(r.stdout)
        os.rename(js + ".tmp", js)
        with open(ms, "w") as fh:
            json.dump(missing, fh)
        return js, missing


def _tu_bisect(self, d, live, idxs):
    """indices of wrappers that fail to compile on their own (header + that subset)"""
    def ok(sub):
        src = os.path.join(d, "bisect.cpp")
        with open(src, "w") as fh:
            fh.write("\n".join(self.header) + "\n")
            for i in sub:
                fh.write(live[i][1] + "\n")
        r = _compile_ir(src, os.path.join(d, "bisect.ll"), self.cfg, self.std, self.opt, self.extra)
        return r.returncode == 0
    out = []
    stack = [idxs]
    budget = 120
    while stack and budget > 0:
        sub = stack.pop()
        budget -= 1
        if ok(sub):
            continue
        if len(sub) == 1:
            out.append(sub[0])
            continue
        h = len(sub) // 2
        stack.append(sub[:h])
        stack.append(sub[h:])
    return out


TU._bisect = _tu_bisect


def ensure_tools():
    if not os.path.exists(IRDUMP):
        r = sh(["bash", os.path.join(VERIF, "bin", "setup.sh")])
        if r.returncode != 0 or not os.path.exists(IRDUMP):
            raise Broken("cannot build irdump: " + r.stderr[-400:])
