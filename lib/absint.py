"""Abstract interpretation of closed forms over (known bits x unsigned interval), with complete case splits.

Used to decide one-operand lane functions on 32/64-bit lanes (bit counting, bit_floor/ceil/width and their
emulations through shifts, smears, or int->float conversion) where a truth table is out of reach: the lane's
input space is split into finitely many cases that cover it (position of the highest / lowest one or zero,
with or without further set bits below); in each case the operand is  0..0 1 X..X  etc., and both closed
forms are evaluated in the abstract domain.  If every case yields the same fully-known constant for the
actual and the expected form, the two forms agree on every input (each transfer function over-approximates
the concrete evaluator term.ev, so a fully-known abstract result is the concrete result of every input of
the case).  Anything the domain cannot resolve leaves the instance UNDECIDED - never a pass.

Float steps (sitofp/uitofp, fadd/fmul with a constant, also with a static rounding mode) use monotonicity:
for x in [a, b]  op(x) lies in [RD(op(a)), RU(op(b))] under every rounding mode, and for same-signed floats
the bit pattern is monotone in the value."""
from fractions import Fraction

import term as T
import fpeval


class Top(Exception):
    pass


class AV:
    __slots__ = ("w", "z", "o", "lo", "hi")

    def __init__(self, w, z=0, o=0, lo=None, hi=None):
        M = (1 << w) - 1
        self.w = w
        self.z = z & M
        self.o = o & M
        self.lo = 0 if lo is None else lo
        self.hi = M if hi is None else hi
        self._norm()

    def _norm(self):
        M = (1 << self.w) - 1
        for _ in range(3):
            lo = max(self.lo, self.o)
            hi = min(self.hi, M & ~self.z)
            if lo > hi:
                raise Top("empty")          # infeasible: treat as unknown (never as a proof)
            # tighten the bounds to the known bits: smallest value >= lo compatible is hard in general;
            # use the simple sound bounds above, then derive known bits from the common prefix
            d = lo ^ hi
            p = d.bit_length()
            common = M & ~((1 << p) - 1)
            z = self.z | (common & ~lo)
            o = self.o | (common & lo)
            if (lo, hi, z, o) == (self.lo, self.hi, self.z, self.o):
                break
            self.lo, self.hi, self.z, self.o = lo, hi, z & M, o & M
        if self.z & self.o:
            raise Top("contradiction")

    def known(self):
        return (self.z | self.o) == (1 << self.w) - 1

    def value(self):
        return self.o

    def bit(self, i):
        if (self.o >> i) & 1:
            return 1
        if (self.z >> i) & 1:
            return 0
        return None

    def __repr__(self):
        s = "".join("1" if (self.o >> i) & 1 else "0" if (self.z >> i) & 1 else "X" for i in reversed(range(self.w)))
        return "AV(%s [%#x,%#x])" % (s, self.lo, self.hi)


def const(w, v):
    M = (1 << w) - 1
    v &= M
    return AV(w, M & ~v, v, v, v)


def top(w):
    return AV(w)


def join(a, b):
    return AV(a.w, a.z & b.z, a.o & b.o, min(a.lo, b.lo), max(a.hi, b.hi))


def _slice(a, lo, w):
    M = (1 << w) - 1
    z, o = (a.z >> lo) & M, (a.o >> lo) & M
    if lo == 0 and a.hi <= M:
        return AV(w, z, o, a.lo, a.hi)
    if a.hi >> (lo + w) == a.lo >> (lo + w):
        # the bits above the slice are fixed over the interval: the slice is monotone in the value >> lo
        return AV(w, z, o, (a.lo >> lo) & M, (a.hi >> lo) & M)
    return AV(w, z, o)


def _concat(parts):
    w = sum(p.w for p in parts)
    z = o = lo = hi = 0
    pos = 0
    for p in parts:
        z |= p.z << pos
        o |= p.o << pos
        lo |= p.lo << pos
        hi |= p.hi << pos
        pos += p.w
    return AV(w, z, o, lo, hi)


def _signed_bounds(a):
    s = a.bit(a.w - 1)
    if s == 0:
        return a.lo, a.hi
    if s == 1:
        return a.lo - (1 << a.w), a.hi - (1 << a.w)
    return None


def _from_bounds(w, lo, hi):
    M = (1 << w) - 1
    if lo > hi:
        raise Top("bounds")
    if 0 <= lo and hi <= M:
        return AV(w, 0, 0, lo, hi)
    if lo < 0 and hi < 0 and lo >= -(1 << w):
        return AV(w, 0, 0, lo + (1 << w), hi + (1 << w))
    if lo > M and hi <= 2 * M + 1:
        return AV(w, 0, 0, lo - (1 << w), hi - (1 << w))
    return AV(w)


def _trailing_known(vals):
    k = None
    for a in vals:
        kn = a.z | a.o
        t = 0
        while t < a.w and (kn >> t) & 1:
            t += 1
        k = t if k is None else min(k, t)
    return k or 0


def _add(w, vals, neg_last=False):
    M = (1 << w) - 1
    lo = sum(a.lo for a in vals)
    hi = sum(a.hi for a in vals)
    r = _from_bounds(w, lo, hi) if hi - lo <= M else AV(w)
    k = _trailing_known(vals)
    if k:
        km = (1 << k) - 1
        s = sum(a.o & km for a in vals) & km
        r = AV(w, r.z | (km & ~s), r.o | s, r.lo, r.hi)
    return r


def _pat_interval(w, plo, phi):
    return AV(w, 0, 0, min(plo, phi), max(plo, phi))


def _float_vals(a, w):
    """value interval (Fractions) of a float pattern AV holding finite same-signed numbers, else None"""
    if a.bit(w - 1) is None:
        return None
    s = a.bit(w - 1)
    p, emin, emax = fpeval.FMT[w]
    mb = p - 1
    expmax = ((1 << (w - p)) - 1) << mb
    mag_hi = a.hi & ((1 << (w - 1)) - 1)
    if mag_hi >= expmax:
        return None

    def val(pat):
        d = fpeval.decode(pat, w)
        return Fraction(0) if d[0] == "zero" else d[1]
    v1, v2 = val(a.lo), val(a.hi)
    return (min(v1, v2), max(v1, v2))


def _float_from_vals(w, vlo, vhi, conversion=False, mode=None):
    """pattern AV for all floats obtained by rounding some real in [vlo, vhi]: in the statically selected
    mode when the operation carries one (rounding is monotone in each mode), else in any mode (RD / RU bounds)"""
    if not conversion and vlo <= 0 <= vhi:
        # an exact zero sum/product takes its sign from the operands and the rounding mode
        if vlo == vhi:
            return AV(w, ((1 << w) - 1) >> 1, 0)
        return AV(w)
    plo = fpeval.encode(vlo, w, mode or "RD")
    phi = fpeval.encode(vhi, w, mode or "RU")
    dlo, dhi = fpeval.decode(plo, w), fpeval.decode(phi, w)
    if dlo[0] in ("inf", "nan") or dhi[0] in ("inf", "nan"):
        return AV(w)
    slo, shi = plo >> (w - 1), phi >> (w - 1)
    if vlo < 0 and vhi > 0:
        return AV(w)
    if vlo == 0 or vhi == 0:
        # a zero result's sign depends on the rounding mode and the operands: leave the sign open unless
        # both ends are the same pattern
        if plo != phi:
            return AV(w)
    if slo != shi:
        return AV(w)
    return _pat_interval(w, plo, phi)


class Interp:
    def __init__(self, argenv):
        self.argenv = argenv        # arg index -> AV of the whole argument
        self.memo = {}

    def ev(self, t):
        k = id(t)
        r = self.memo.get(k)
        if r is None:
            try:
                r = self._ev(t)
            except Top:
                r = AV(t[1])
            self.memo[k] = r
        return r

    def _ev(self, t):
        o, w = t[0], t[1]
        M = (1 << w) - 1
        ev = self.ev
        if o == "const":
            return const(w, t[2])
        if o not in ("arg", "concat", "slice", "select", "and", "or") and not o.startswith("fr:") and o not in T.FP_OPS:
            # every operand fully known: the concrete evaluator decides (float steps excluded: their result
            # depends on the rounding mode)
            kids = [x for x in t[2:] if isinstance(x, tuple)]
            if kids:
                vals = [ev(x) for x in kids]
                if all(a.known() for a in vals):
                    it = iter(vals)
                    args = [T.const(x[1], next(it).value()) if isinstance(x, tuple) else x for x in t[2:]]
                    try:
                        return const(w, T.ev((o, w) + tuple(args), {"args": []}))
                    except (T.Poison, T.Uneval):
                        return AV(w)
        if o == "arg":
            ent = self.argenv.get(t[2])
            if ent is None:
                return AV(w)
            off, W, a = ent                 # the constrained lane; every other bit of the argument is unknown
            if off <= t[3] and t[3] + w <= off + W:
                return a if (t[3] - off, w) == (0, W) else _slice(a, t[3] - off, w)
            return AV(w)
        if o == "concat":
            return _concat([ev(p) for p in t[2:]])
        if o == "slice":
            return _slice(ev(t[2]), t[3], w)
        if o == "rep":
            b = ev(t[2])
            if b.known():
                return const(w, M if b.value() else 0)
            return AV(w)
        if o == "not":
            a = ev(t[2])
            return AV(w, a.o, a.z, M - a.hi, M - a.lo)
        if o in ("and", "or", "xor"):
            vs = [ev(x) for x in t[2:]]
            z, on = vs[0].z, vs[0].o
            for a in vs[1:]:
                if o == "and":
                    z, on = z | a.z, on & a.o
                elif o == "or":
                    z, on = z & a.z, on | a.o
                else:
                    z, on = (z & a.z) | (on & a.o), (z & a.o) | (on & a.z)
            if o == "and":
                if len(t) == 4:
                    # x & -x isolates the lowest set bit (also when the conjunction has been pushed into slices)
                    for x, y in ((t[2], t[3]), (t[3], t[2])):
                        X = off = None
                        if y[0] == "neg" and y[2] is x:
                            X, off = x, 0
                        elif y[0] == "slice" and y[2][0] == "neg" and T.slice_(y[2][2], y[3], w) is x:
                            X, off = y[2][2], y[3]
                        if X is not None:
                            a = ev(X)
                            for l in range(X[1]):
                                b = a.bit(l)
                                if b == 1:
                                    return const(w, ((1 << l) >> off) & M)
                                if b is None:
                                    break
                        # ~x & (x + 1) isolates the lowest clear bit
                        if x[0] == "not":
                            q, off2 = (y[2], y[3]) if y[0] == "slice" else (y, 0)
                            if q[0] == "add" and len(q) == 4:
                                cs = [z_ for z_ in q[2:] if z_[0] == "const"]
                                rs = [z_ for z_ in q[2:] if z_[0] != "const"]
                                if len(cs) == 1 and cs[0][2] == 1 and len(rs) == 1 and (
                                        T.slice_(rs[0], off2, w) is x[2] or (off2 == 0 and rs[0] is x[2])):
                                    a = ev(rs[0])
                                    for l in range(rs[0][1]):
                                        b = a.bit(l)
                                        if b == 0:
                                            return const(w, ((1 << l) >> off2) & M)
                                        if b is None:
                                            break
                return AV(w, z, on, 0, min(a.hi for a in vs))
            if o == "or":
                return AV(w, z, on, max(a.lo for a in vs), M)
            return AV(w, z, on)
        if o == "add":
            return _add(w, [ev(x) for x in t[2:]])
        if o == "sub":
            a, b = ev(t[2]), ev(t[3])
            r = _from_bounds(w, a.lo - b.hi, a.hi - b.lo) if (a.hi - b.lo) - (a.lo - b.hi) <= M else AV(w)
            k = _trailing_known([a, b])
            if k:
                km = (1 << k) - 1
                s = ((a.o & km) - (b.o & km)) & km
                r = AV(w, r.z | (km & ~s), r.o | s, r.lo, r.hi)
            return r
        if o == "neg":
            a = ev(t[2])
            r = _from_bounds(w, -a.hi, -a.lo) if a.lo > 0 else AV(w)
            k = _trailing_known([a])
            if k:
                km = (1 << k) - 1
                sv = (-(a.o & km)) & km
                r = AV(w, r.z | (km & ~sv), r.o | sv, r.lo, r.hi)
            return r
        if o == "mul":
            vs = [ev(x) for x in t[2:]]
            lo = hi = 1
            for a in vs:
                lo *= a.lo
                hi *= a.hi
            if hi <= M:
                return AV(w, 0, 0, lo, hi)
            if all(a.known() for a in vs):
                v = 1
                for a in vs:
                    v *= a.value()
                return const(w, v)
            return AV(w)
        if o == "icmp":
            pred, a, b = t[2], ev(t[3]), ev(t[4])
            if a.known() and b.known():
                return const(1, int(T.eval_icmp(pred, a.value(), b.value(), a.w)))
            if pred in ("eq", "ne"):
                if (a.z & b.o) | (a.o & b.z) or a.hi < b.lo or b.hi < a.lo:
                    return const(1, int(pred == "ne"))
                return AV(1)
            if pred[0] == "u":
                x, y = (a.lo, a.hi), (b.lo, b.hi)
            else:
                x, y = _signed_bounds(a), _signed_bounds(b)
                if x is None or y is None:
                    return AV(1)
            p = pred[1:]
            if p == "lt":
                return const(1, 1) if x[1] < y[0] else const(1, 0) if x[0] >= y[1] else AV(1)
            if p == "le":
                return const(1, 1) if x[1] <= y[0] else const(1, 0) if x[0] > y[1] else AV(1)
            if p == "gt":
                return const(1, 1) if x[0] > y[1] else const(1, 0) if x[1] <= y[0] else AV(1)
            if p == "ge":
                return const(1, 1) if x[0] >= y[1] else const(1, 0) if x[1] < y[0] else AV(1)
            return AV(1)
        if o == "select":
            c = ev(t[2])
            if c.known():
                return ev(t[3]) if c.value() else ev(t[4])
            return join(ev(t[3]), ev(t[4]))
        if o in ("shl", "lshr", "ashr", "shlsat", "lshrsat", "ashrsat"):
            x, a = ev(t[2]), ev(t[3])
            if not a.known():
                return AV(w)
            n = a.value()
            sat = o.endswith("sat")
            kind = o[:-3] if sat else o
            if n >= w:
                if not sat:
                    return AV(w)        # poison in the concrete semantics: never a proof
                if kind == "ashr":
                    s = x.bit(w - 1)
                    return AV(w) if s is None else const(w, M if s else 0)
                return const(w, 0)
            if kind == "shl":
                return AV(w, (x.z << n) | ((1 << n) - 1), x.o << n)
            if kind == "lshr":
                return AV(w, (x.z >> n) | (M & ~(M >> n)), x.o >> n, x.lo >> n, x.hi >> n)
            s = x.bit(w - 1)
            hi_fill = M & ~(M >> n)
            if s is None:
                return AV(w, (x.z >> n) & ~hi_fill, (x.o >> n) & ~hi_fill)
            return AV(w, (x.z >> n) | (0 if s else hi_fill), (x.o >> n) | (hi_fill if s else 0))
        if o == "popsum":
            its = T.popsum_items(t)
            if its and all(m == 1 and b[1] == 1 for b, m in its) and t[2] == 0:
                # population count of one value: the interval can exclude "no further bit set"
                a = ev(T.concat([b for b, m in its]))
                lo_pc = bin(a.o).count("1") + (1 if a.lo > a.o else 0)
                hi_pc = a.w - bin(a.z).count("1")
                return _from_bounds(w, lo_pc, max(lo_pc, hi_pc))
            lo = hi = t[2] if t[2] <= M >> 1 else t[2] - (1 << w)
            for b, m in T.popsum_items(t):
                a = ev(b)
                if m > M >> 1:
                    m -= 1 << w              # weights are taken modulo 2^w: use the small representative
                if m >= 0:
                    lo += m * a.lo
                    hi += m * a.hi
                else:
                    lo += m * a.hi
                    hi += m * a.lo
            if lo == hi:
                return const(w, lo)
            return _from_bounds(w, lo, hi) if hi - lo <= M else AV(w)
        if o == "satus":
            a = ev(t[2])
            sb = _signed_bounds(a)
            if sb is None:
                return AV(w)
            return AV(w, 0, 0, max(0, min(sb[0], M)), max(0, min(sb[1], M)))
        if o.startswith("call:llvm."):
            n = o[10:]
            if n in ("ctlz", "cttz"):
                x = ev(t[2])
                zu = len(t) > 3 and isinstance(t[3], tuple) and not (t[3][0] == "const" and t[3][2] == 0)
                if x.known():
                    v = x.value()
                    if v == 0 and zu:
                        return AV(w)
                    return const(w, T._clz(v, w) if n == "ctlz" else T._ctz(v, w))
                if n == "ctlz":
                    for h in reversed(range(w)):
                        b = x.bit(h)
                        if b == 1:
                            return const(w, w - 1 - h)
                        if b is None:
                            break
                    return AV(w, 0, 0, 0, w)
                for l in range(w):
                    b = x.bit(l)
                    if b == 1:
                        return const(w, l)
                    if b is None:
                        break
                return AV(w, 0, 0, 0, w)
            if n == "ctpop":
                x = ev(t[2])
                return AV(w, 0, 0, bin(x.o).count("1"), w - bin(x.z).count("1"))
            if n in ("umin", "umax", "uadd.sat", "usub.sat"):
                a, b = ev(t[2]), ev(t[3])
                if n == "umin":
                    return AV(w, 0, 0, min(a.lo, b.lo), min(a.hi, b.hi))
                if n == "umax":
                    return AV(w, 0, 0, max(a.lo, b.lo), max(a.hi, b.hi))
                if n == "uadd.sat":
                    return AV(w, 0, 0, min(a.lo + b.lo, M), min(a.hi + b.hi, M))
                return AV(w, 0, 0, max(a.lo - b.hi, 0), max(a.hi - b.lo, 0))
            if n in ("smin", "smax"):
                a, b = ev(t[2]), ev(t[3])
                x, y = _signed_bounds(a), _signed_bounds(b)
                if x is None or y is None:
                    return AV(w)
                f = min if n == "smin" else max
                return _from_bounds(w, f(x[0], y[0]), f(x[1], y[1]))
            if n == "fabs":
                a = ev(t[2])
                return AV(w, a.z | (1 << (w - 1)), a.o & (M >> 1))
            if n in ("bswap", "bitreverse", "abs"):
                a = ev(t[2])
                if a.known():
                    return const(w, T.ev(T.mk(o, w, T.const(w, a.value()), *t[3:]), {"args": []}))
                return AV(w)
            return AV(w)
        base = o.split(":")[-1] if o.startswith("fr:") else o
        fmode = o.split(":")[1] if o.startswith("fr:") else None
        if base in ("sitofp", "uitofp") and w in (32, 64):
            a = ev(t[2])
            sw = t[2][1]
            if base == "sitofp":
                sb = _signed_bounds(a)
                if sb is None:
                    return AV(w)
                lo, hi = sb
            else:
                lo, hi = a.lo, a.hi
            return _float_from_vals(w, Fraction(lo), Fraction(hi), conversion=True, mode=fmode)
        if base in ("fadd", "fmul") and w in (32, 64):
            a, b = ev(t[2]), ev(t[3])
            va, vb = _float_vals(a, w), _float_vals(b, w)
            if va is None or vb is None:
                return AV(w)
            if base == "fadd":
                return _float_from_vals(w, va[0] + vb[0], va[1] + vb[1], mode=fmode)
            cands = [va[0] * vb[0], va[0] * vb[1], va[1] * vb[0], va[1] * vb[1]]
            return _float_from_vals(w, min(cands), max(cands), mode=fmode)
        if o in ("x86.pshufb", "tabload", "x86.permx"):
            vs = [ev(x) for x in t[2:] if isinstance(x, tuple)]
            if all(a.known() for a in vs):
                args = [T.const(x[1], a.value()) for x, a in zip([y for y in t[2:] if isinstance(y, tuple)], vs)]
                try:
                    return const(w, T.ev(T.mk(o, w, *args), {"args": []}))
                except (T.Poison, T.Uneval):
                    return AV(w)
            return AV(w)
        if o in ("spec:bit_floor", "spec:bit_ceil"):
            x = ev(t[2])
            if x.known():
                return const(w, T.ev(T.mk(o, w, T.const(w, x.value())), {"args": []}))
            if o == "spec:bit_floor":
                for h in reversed(range(w)):
                    b = x.bit(h)
                    if b == 1:
                        return const(w, 1 << h)
                    if b is None:
                        break
                return AV(w)
            # bit_ceil: x in (2^h, 2^(h+1)]  ->  2^(h+1)
            if x.lo > 0:
                h = (x.lo - 1).bit_length() - 1 if x.lo > 1 else -1
                # smallest power of two >= lo and >= hi must coincide
                cl = 1 << (x.lo - 1).bit_length() if x.lo > 1 else 1
                ch = 1 << (x.hi - 1).bit_length() if x.hi > 1 else 1
                if cl == ch:
                    return const(w, cl & M)      # same wrap-around as the concrete specification term
            return AV(w)
        return AV(w)


# ---------------------------------------------------------------------------
# case splits of a W-bit lane (each list covers all 2^W values)

def _cases_msb(W, exact_split):
    yield "x == 0", const(W, 0)
    for h in range(W):
        M = (1 << W) - 1
        hi_zero = M & ~((1 << (h + 1)) - 1)
        if exact_split and h > 0:
            yield "x == 2^%d" % h, const(W, 1 << h)
            yield "2^%d < x < 2^%d" % (h, h + 1), AV(W, hi_zero, 1 << h, (1 << h) + 1, (1 << (h + 1)) - 1)
        else:
            yield "2^%d <= x < 2^%d" % (h, h + 1), AV(W, hi_zero, 1 << h, 1 << h, (1 << (h + 1)) - 1)


def _cases_lsb(W):
    yield "x == 0", const(W, 0)
    for l in range(W):
        yield "lowest set bit %d" % l, AV(W, (1 << l) - 1, 1 << l)


def _cases_msz(W):
    M = (1 << W) - 1
    yield "x == ~0", const(W, M)
    for h in range(W):
        hi_one = M & ~((1 << (h + 1)) - 1)
        yield "highest clear bit %d" % h, AV(W, 1 << h, hi_one)


def _cases_lsz(W):
    M = (1 << W) - 1
    yield "x == ~0", const(W, M)
    for l in range(W):
        yield "lowest clear bit %d" % l, AV(W, 1 << l, (1 << l) - 1)


def _cases_sign_run(W):
    """leading run of bits equal to the sign bit (countl_sign)"""
    M = (1 << W) - 1
    yield "x == 0", const(W, 0)
    yield "x == ~0", const(W, M)
    for h in range(W - 1):
        hi = M & ~((1 << (h + 1)) - 1)
        yield "sign 0, highest set bit %d" % h, AV(W, hi, 1 << h)
        yield "sign 1, highest clear bit %d" % h, AV(W, 1 << h, hi)


SCHEMES = (
    ("position of the highest set bit", lambda W: _cases_msb(W, False)),
    ("position of the highest set bit, power of two or not", lambda W: _cases_msb(W, True)),
    ("position of the lowest set bit", _cases_lsb),
    ("position of the highest clear bit", _cases_msz),
    ("position of the lowest clear bit", _cases_lsz),
    ("length of the leading sign run", _cases_sign_run),
)


def decide_unary(actual_lane, expected_lane, argidx, arg_bits, lane_off, W):
    """both lane terms depend on lane [lane_off, lane_off+W) of argument argidx only.
    returns (scheme name, number of cases) or (None, reason)"""
    last = None
    fails = []
    for name, gen in SCHEMES:
        ok = True
        n = 0
        for label, av in gen(W):
            I = Interp({argidx: (lane_off, W, av)})
            try:
                a = I.ev(actual_lane)
                e = I.ev(expected_lane)
            except Top:
                ok = False
                last = "%s: case %s not evaluable" % (name, label)
                break
            n += 1
            if not (a.known() and e.known()):
                ok = False
                last = "%s: case '%s' leaves %s unresolved" % (name, label, "the implementation" if not a.known() else "the specification")
                fails.append(last)
                break
            if a.value() != e.value():
                return None, "abstract values differ in case '%s' (%#x vs %#x) - inconclusive" % (label, a.value(), e.value())
        if ok:
            return name, n
    return None, " | ".join(fails) or last or "no scheme"
