"""Bit-vector term algebra used as the abstract domain of the IR analyses.

A term is an interned tuple (op, width, ...).  Smart constructors normalise
(constant folding, flattening, commutative ordering, bit-slice pushing), so
that two functions with the same lane-wise meaning usually reach the same
term.  Equality of normal forms => equal functions (sound).  Inequality of
normal forms decides nothing by itself.

Vectors are flattened little-endian: lane 0 is the least significant part,
<N x i1> lane i is bit i.
"""

_intern = {}
_serial = {}


class TooBig(Exception):
    """analysis budget for one instance exhausted (never a verdict)"""


_budget = [None, None]      # (max interned terms, max work ticks): deterministic, never wall-clock
_work = [0]


def set_budget(nodes=None, seconds=None):
    """seconds is a nominal figure converted into work ticks (about 150k constructor / evaluation
    steps per nominal second) so that verdicts do not depend on machine load"""
    _budget[0] = (len(_intern) + nodes) if nodes else None
    _work[0] = 0
    _budget[1] = int(seconds * 150000) if seconds else None


def work(n=1):
    _work[0] += n
    if _budget[1] is not None and _work[0] > _budget[1]:
        raise TooBig("work budget")


def mk(*t):
    # intern on a shallow key (ids of sub-terms): hashing nested tuples is linear in term size
    k = tuple([id(x) if x.__class__ is tuple else x for x in t])
    r = _intern.get(k)
    if r is None:
        _intern[k] = t
        n = len(_serial)
        _serial[id(t)] = n
        r = t
        if _budget[0] is not None and n > _budget[0]:
            raise TooBig("more than the node budget")
    return r


def ser(t):
    return _serial[id(t)]


def reset():
    _intern.clear()
    _serial.clear()
    _slice_memo.clear()
    _not_memo.clear()


def W(t):
    return t[1]


def mask(w):
    return (1 << w) - 1


# ---------------------------------------------------------------- leaves

def const(w, v):
    return mk("const", w, v & mask(w))


def arg(k, lo, w):
    return mk("arg", w, k, lo)


def undef(w):
    return mk("undef", w)


def mem(base, off, w, lo=0):
    """w bits starting at bit `lo` of the initial memory at byte address
    base+off (base is a pointer term, off a python int)."""
    off += lo // 8
    lo %= 8
    return mk("mem", w, base, off, lo)


def opaque(w, tag, *deps):
    return mk("opaque", w, tag, *deps)


def is_const(t):
    return t[0] == "const"


def cval(t):
    return t[2]


def all_ones(t):
    return t[0] == "const" and t[2] == mask(t[1])


def is_zero(t):
    return t[0] == "const" and t[2] == 0


# ---------------------------------------------------------------- concat / slice

def concat(parts):
    """parts: low -> high"""
    flat = []
    for p in parts:
        if p[1] == 0:
            continue
        if p[0] == "concat":
            flat.extend(p[2:])
        else:
            flat.append(p)
    out = []
    for p in flat:
        if out:
            q = out[-1]
            m = _merge(q, p)
            if m is not None:
                out[-1] = m
                continue
        out.append(p)
    if len(out) == 1:
        return out[0]
    w = sum(p[1] for p in out)
    if len(out) == 2 and out[0][0] == "popsum" and is_zero(out[1]):
        return popsum(w, popsum_items(out[0]), out[0][2])
    return mk("concat", w, *out)


def _merge(q, p):
    """merge adjacent parts q (low) and p (high) if they form one leaf"""
    if q[0] == "const" and p[0] == "const":
        return const(q[1] + p[1], q[2] | (p[2] << q[1]))
    if q[0] == "arg" and p[0] == "arg" and q[2] == p[2] and q[3] + q[1] == p[3]:
        return arg(q[2], q[3], q[1] + p[1])
    if q[0] == "mem" and p[0] == "mem" and q[2] is p[2]:
        qb = q[3] * 8 + q[4]
        pb = p[3] * 8 + p[4]
        if qb + q[1] == pb:
            return mk("mem", q[1] + p[1], q[2], q[3], q[4])
    if q[0] == "slice" and p[0] == "slice" and q[2] is p[2] and q[3] + q[1] == p[3]:
        return slice_(q[2], q[3], q[1] + p[1])
    if q[0] == "rep" and p[0] == "rep" and q[2] is p[2]:
        return rep(q[1] + p[1], q[2])
    if p[0] == "rep" and p[2] is q:
        return rep(1 + p[1], q)
    if q[0] == "rep" and q[2] is p:
        return rep(1 + q[1], p)
    if q is p and q[1] == 1:
        return rep(2, q)
    if q[0] == "undef" and p[0] == "undef":
        return undef(q[1] + p[1])
    if q[0] == "select" and p[0] == "select" and q[2] is p[2]:
        ma = _merge(q[3], p[3])
        mb = _merge(q[4], p[4])
        if ma is not None and mb is not None:
            return select(q[2], ma, mb)
    return None


_slice_memo = {}

BITWISE = ("and", "or", "xor")
LOWBITS = ("add", "mul")


def slice_(t, lo, w):
    """bits [lo, lo+w) of t"""
    if lo == 0 and w == t[1]:
        return t
    assert 0 <= lo and lo + w <= t[1] and w > 0, (t[:2], lo, w)
    key = (id(t), lo, w)
    r = _slice_memo.get(key)
    if r is not None:
        return r
    r = _slice(t, lo, w)
    _slice_memo[key] = r
    return r


def _slice(t, lo, w):
    op = t[0]
    if op == "const":
        return const(w, t[2] >> lo)
    if op == "arg":
        return arg(t[2], t[3] + lo, w)
    if op == "undef":
        return undef(w)
    if op == "mem":
        return mem(t[2], t[3], w, t[4] + lo)
    if op == "concat":
        out = []
        pos = 0
        for p in t[2:]:
            pw = p[1]
            a = max(lo, pos)
            b = min(lo + w, pos + pw)
            if a < b:
                out.append(slice_(p, a - pos, b - a))
            pos += pw
            if pos >= lo + w:
                break
        return concat(out)
    if op == "slice":
        return slice_(t[2], t[3] + lo, w)
    if op == "rep":
        return rep(w, t[2])
    if op in BITWISE:
        return nary(op, w, [slice_(x, lo, w) for x in t[2:]])
    if op == "not":
        return not_(slice_(t[2], lo, w))
    if op == "select":
        return select(t[2], slice_(t[3], lo, w), slice_(t[4], lo, w))
    if op in ("shl", "lshr", "ashr") and lo == 0 and (1 << t[3][1]) - 1 < t[1]:
        X = t[2]
        if op == "shl":
            return shift("shl", slice_(X, 0, w), t[3], True)
        hi = slice_(X, w, t[1] - w)
        y = slice_(X, 0, w)
        if op == "lshr" and is_zero(hi):
            return shift("lshr", y, t[3], True)
        if op == "ashr" and hi[0] == "rep" and hi[2] is msb(y):
            return shift("ashr", y, t[3], True)
    if op == "lshrsat" and lo == 0 and 2 * w == t[1]:
        X = t[2]
        if slice_(X, 0, w) is slice_(X, w, w):
            x = slice_(X, 0, w)
            m = t[3]
            if w & (w - 1) == 0 and m[0] in ("sub", "add"):
                k = _w_minus_k(m, w)
                if k is not None and k[1] <= w.bit_length() - 1:
                    return fsh("fshl", x, x, k)
    if op == "shlsat" and lo == w and 2 * w == t[1]:
        X = t[2]
        if slice_(X, 0, w) is slice_(X, w, w):
            x = slice_(X, 0, w)
            m = t[3]
            if w & (w - 1) == 0 and m[0] in ("sub", "add"):
                k = _w_minus_k(m, w)
                if k is not None and k[1] <= w.bit_length() - 1:
                    return fsh("fshr", x, x, k)
    if op == "shlsat":
        X = t[2]
        if lo == 0:
            return shift("shl", slice_(X, 0, w), t[3], True)
        if is_zero(slice_(X, 0, lo)):
            return shift("shl", slice_(X, lo, w), t[3], True)
    if op in ("lshrsat", "ashrsat") and lo + w == t[1]:
        return shift(op[:-3], slice_(t[2], lo, w), t[3], True)
    if op == "popsum" and lo == 0 and popsum_max(t) < (1 << w):
        return popsum(w, popsum_items(t), t[2])
    if op == "popsum" and lo > 0 and popsum_max(t) < (1 << lo):
        return const(w, 0)
    if lo == 0 and op in LOWBITS:
        return nary(op, w, [slice_(x, 0, w) for x in t[2:]])
    if lo == 0 and op == "sub":
        return sub(slice_(t[2], 0, w), slice_(t[3], 0, w))
    if lo == 0 and op == "neg":
        return neg(slice_(t[2], 0, w))
    if op == "mul" and len(t) == 4 and 2 * lo == t[1] and 2 * w == t[1] and \
            t[2][0] != "const" and t[3][0] != "const" and not (
                t[2][0] == "concat" and is_zero(t[2][-1]) and t[3][0] == "concat" and is_zero(t[3][-1])):
        # schoolbook: hi(a*b) = a_hi*b_lo + a_lo*b_hi + hi(zext(a_lo)*zext(b_lo))   (mod 2^w)
        a, b = t[2], t[3]
        alo, ahi = slice_(a, 0, w), slice_(a, w, w)
        blo, bhi = slice_(b, 0, w), slice_(b, w, w)
        parts = []
        if not is_zero(ahi):
            parts.append(nary("mul", w, [ahi, blo]))
        if not is_zero(bhi):
            parts.append(nary("mul", w, [alo, bhi]))
        parts.append(slice_(nary("mul", 2 * w, [zext(alo, 2 * w), zext(blo, 2 * w)]), w, w))
        return nary("add", w, parts)
    if op == "mul" and lo > 0:
        # mul(x, concat(0:k, y)) with k >= lo: bits [lo,..) = low bits of mul(x, that >> lo)
        for x in t[2:]:
            if x[0] == "concat" and is_zero(x[2]) and x[2][1] >= lo:
                rest = [y for y in t[2:] if y is not x]
                full = nary("mul", t[1], rest + [lshr_c(x, lo)])
                return slice_(full, 0, w)
        # mul(x, c) with c a multiple of 2^lo: bits [lo, ..) = low bits of mul(x, c>>lo)
        cs = [x for x in t[2:] if x[0] == "const"]
        if cs:
            c = cs[0][2]
            if c % (1 << lo) == 0:
                rest = [x for x in t[2:] if x is not cs[0]]
                full = nary("mul", t[1], rest + [const(t[1], c >> lo)])
                return slice_(full, 0, w)
    if lo > 0 and op in ("add", "sub") and lo + w < t[1] and all(_is_extension(x, lo + w) for x in t[2:]):
        # bits below lo+w of a sum depend only on the operands' bits below lo+w: when the operands are
        # merely zero/sign extended beyond that, narrow the adder, so that the same arithmetic carried out in
        # a wider type has the same normal form (sums of genuinely wide operands keep their shared adder)
        k = lo + w
        if op == "add":
            inner = nary("add", k, [slice_(x, 0, k) for x in t[2:]])
        else:
            inner = sub(slice_(t[2], 0, k), slice_(t[3], 0, k))
        return slice_(inner, lo, w)
    if lo == 0 and op == "sdiv" and t[3][0] == "const" and 0 < t[3][2] < (1 << (t[1] - 1)):
        # signed division of a value that is a sign extension from k bits gives the sign extension of the
        # k-bit quotient (positive divisor, no MIN / -1 case): carry it out in the narrowest such width
        k = max(signed_width(t[2]), t[3][2].bit_length() + 1, w)
        if k < t[1]:
            inner = mk("sdiv", k, slice_(t[2], 0, k), const(k, t[3][2]))
            return slice_(inner, 0, w) if w < k else inner
    return mk("slice", w, t, lo)


def _is_extension(x, k):
    """bits [k, width) of x are a zero or sign extension of its low k bits (or constant)"""
    if x[0] == "const":
        return True
    hi = slice_(x, k, x[1] - k)
    if hi[0] == "const":
        return True
    m = msb(slice_(x, 0, k))
    return (hi[0] == "rep" and hi[2] is m) or hi is m


def signed_width(t):
    """smallest k such that t is the sign extension of its low k bits (syntactic, sound upper bound)"""
    W = t[1]
    op = t[0]
    if op == "const":
        v = _signed(t[2], W)
        return min(W, (v if v >= 0 else ~v).bit_length() + 1)
    if op == "concat" and len(t) >= 4:
        last = t[-1]
        body = concat(list(t[2:-1]))
        if last[0] == "rep" and last[2] is msb(body):
            return min(W, signed_width(body)) if body[1] <= W else W
        if is_zero(last):
            return min(W, body[1] + 1)
        if last[1] == 1 and last is msb(body):
            return body[1]
    if op == "add":
        ks = [signed_width(x) for x in t[2:]]
        return min(W, max(ks) + (len(ks) - 1).bit_length())
    if op == "sub":
        return min(W, max(signed_width(t[2]), signed_width(t[3])) + 1)
    return W


def rep(w, c):
    """w copies of the 1-bit term c"""
    assert c[1] == 1
    if c[0] == "const":
        return const(w, mask(w) if c[2] else 0)
    if w == 1:
        return c
    return mk("rep", w, c)


def zext(t, w):
    if w == t[1]:
        return t
    return concat([t, const(w - t[1], 0)])


def sext(t, w):
    if w == t[1]:
        return t
    return concat([t, rep(w - t[1], slice_(t, t[1] - 1, 1))])


def msb(t):
    return slice_(t, t[1] - 1, 1)


# ---------------------------------------------------------------- bitwise

_not_memo = {}
_tick = [0]


def _check_time():
    work(1)


def not_(t):
    r = _not_memo.get(id(t))
    if r is None:
        r = _not(t)
        _not_memo[id(t)] = r
    return r


def _not(t):
    op = t[0]
    w = t[1]
    if op == "const":
        return const(w, ~t[2])
    if op == "not":
        return t[2]
    if op == "icmp":
        return icmp(INV[t[2]], t[3], t[4])
    if op == "fcmp":
        return fcmp(FINV[t[2]], t[3], t[4])
    if op == "rep":
        return rep(w, not_(t[2]))
    if op == "concat":
        return concat([not_(p) for p in t[2:]])
    if op == "select":
        # not(select(c, a, b)) = select(c, not a, not b) when that simplifies
        a, b = t[3], t[4]
        if a[0] in ("const", "not", "rep") or b[0] in ("const", "not", "rep"):
            return select(t[2], not_(a), not_(b))
    if w == 1 and op in ("and", "or"):
        return nary("or" if op == "and" else "and", 1, [not_(x) for x in t[2:]])
    return mk("not", w, t)


def _boundaries(t):
    if t[0] == "concat":
        pos = 0
        b = []
        for p in t[2:]:
            pos += p[1]
            b.append(pos)
        return b[:-1]
    return []


def nary(op, w, xs):
    """n-ary associative commutative op: and or xor add mul"""
    _check_time()
    flat = []
    for x in xs:
        assert x[1] == w, (op, w, x[:2])
        if x[0] == op:
            flat.extend(x[2:])
        else:
            flat.append(x)
    if op in BITWISE:
        # split at concat boundaries so that masks with constants become data movement
        cuts = set()
        for x in flat:
            cuts.update(_boundaries(x))
            if x[0] == "const" and 0 < x[2] < mask(w):
                v = x[2]
                prev = v & 1
                for i in range(1, w):
                    b = (v >> i) & 1
                    if b != prev:
                        cuts.add(i)
                        prev = b
        if cuts:
            cl = sorted(cuts)
            parts = []
            lo = 0
            for c in cl + [w]:
                parts.append(nary(op, c - lo, [slice_(x, lo, c - lo) for x in flat]))
                lo = c
            return concat(parts)
    # constant folding
    cs = [x for x in flat if x[0] == "const"]
    rest = [x for x in flat if x[0] != "const"]
    if op == "and":
        c = mask(w)
        for x in cs:
            c &= x[2]
        if c == 0:
            return const(w, 0)
        if c != mask(w):
            rest.append(const(w, c))
    elif op == "or":
        c = 0
        for x in cs:
            c |= x[2]
        if c == mask(w):
            return const(w, c)
        if c:
            rest.append(const(w, c))
    elif op == "xor":
        c = 0
        for x in cs:
            c ^= x[2]
        if c == mask(w):
            if not rest:
                return const(w, c)
            # fold the complement into one operand
            rest.sort(key=ser)
            rest[0] = not_(rest[0])
            return nary("xor", w, rest) if len(rest) > 1 else rest[0]
        if c:
            rest.append(const(w, c))
    elif op == "add":
        c = 0
        for x in cs:
            c += x[2]
        c &= mask(w)
        if c:
            rest.append(const(w, c))
    elif op == "mul":
        c = 1
        for x in cs:
            c *= x[2]
        c &= mask(w)
        if c == 0:
            return const(w, 0)
        if c != 1:
            rest.append(const(w, c))
    if op in ("and", "or"):
        # idempotence, complement, rep -> select
        uniq = []
        seen = set()
        for x in rest:
            if id(x) in seen:
                continue
            seen.add(id(x))
            uniq.append(x)
        rest = uniq
        for x in rest:
            nx = not_(x)
            if id(nx) in seen and nx[0] != "not" or (x[0] == "not" and id(x[2]) in seen):
                return const(w, 0 if op == "and" else mask(w))
    if op == "xor":
        nn = 0
        stripped = []
        for x in rest:
            if x[0] == "not":
                nn += 1
                stripped.append(x[2])
            else:
                stripped.append(x)
        if nn:
            r = nary("xor", w, stripped)
            return not_(r) if nn % 2 else r
    if op == "add" and len(rest) >= 2 and w > 1:
        # (x & y) + ((x ^ y) >> 1)  ==  bits [1, w] of the (w+1)-bit sum x + y   (carry-save identity:
        # x + y = 2*(x & y) + (x ^ y); Hacker's Delight 2-5).  With an arithmetic shift it is the same
        # identity on the sign-extended operands.
        for ai, x in enumerate(rest):
            if x[0] != "and" or len(x) != 4:
                continue
            p, q = x[2], x[3]
            hx = nary("xor", w - 1, [slice_(p, 1, w - 1), slice_(q, 1, w - 1)])
            cand_l = concat([hx, const(1, 0)])
            cand_a = concat([hx, nary("xor", 1, [msb(p), msb(q)])])
            for bi, y in enumerate(rest):
                if bi == ai:
                    continue
                if y is cand_l:
                    avg = slice_(nary("add", w + 1, [zext(p, w + 1), zext(q, w + 1)]), 1, w)
                elif y is cand_a:
                    avg = slice_(nary("add", w + 1, [sext(p, w + 1), sext(q, w + 1)]), 1, w)
                else:
                    continue
                others = [z for k, z in enumerate(rest) if k not in (ai, bi)]
                if not others:
                    return avg
                return nary("add", w, others + [avg])
    if op == "add" and len(rest) >= 2 and any(x[0] in ("popsum", "rep") for x in rest):
        lin = [_to_linear(x) for x in rest]
        if all(l is not None for l in lin):
            c0 = 0
            items = []
            for cc, it in lin:
                c0 += cc
                items.extend(it)
            acc = {}
            order = {}
            for b, m in items:
                acc[id(b)] = (acc.get(id(b), 0) + m) & mask(w)
                order[id(b)] = b
            return popsum(w, [(order[k], m) for k, m in acc.items()], c0 & mask(w))
    if op == "xor":
        cnt = {}
        order = []
        for x in rest:
            if id(x) not in cnt:
                cnt[id(x)] = 0
                order.append(x)
            cnt[id(x)] += 1
        rest = [x for x in order if cnt[id(x)] % 2]
    if w == 1 and op in ("and", "or") and 2 <= len(rest) <= 12:
        want = "eq" if op == "and" else "ne"
        changed = True
        while changed:
            changed = False
            cmps = [x for x in rest if x[0] == "icmp" and x[2] == want]
            for p in cmps:
                for q in cmps:
                    if p is q:
                        continue
                    for (pa, pb) in ((p[3], p[4]), (p[4], p[3])):
                        ma = _merge(pa, q[3])
                        mb = _merge(pb, q[4])
                        if ma is not None and mb is not None:
                            rest = [x for x in rest if x is not p and x is not q]
                            rest.append(icmp(want, ma, mb))
                            changed = True
                            break
                    if changed:
                        break
                if changed:
                    break
        if len(rest) == 1:
            return rest[0]
    if w == 1 and op == "and" and len(rest) >= 2:
        eqs = [x for x in rest if x[0] == "icmp" and x[2] == "eq"]
        for e_ in eqs:
            keep = []
            for x in rest:
                if x is not e_ and x[0] == "icmp" and ((x[3] is e_[3] and x[4] is e_[4])):
                    if x[2] in ("ule", "uge", "sle", "sge"):
                        continue
                    if x[2] in ("ult", "ugt", "slt", "sgt", "ne"):
                        return const(1, 0)
                keep.append(x)
            rest = keep
        if len(rest) == 1:
            return rest[0]
    if w == 1 and op == "or" and len(rest) >= 2:
        m = _lexmerge(rest)
        while m is not None:
            rest = m
            m = _lexmerge(rest) if len(rest) >= 2 else None
        if len(rest) == 1:
            return rest[0]
    if op == "and" and w >= 1:
        reps = [x for x in rest if x[0] == "rep" or (w == 1 and False)]
        if reps and len(rest) >= 2:
            r = reps[0]
            others = [x for x in rest if x is not r]
            inner = nary("and", w, others) if len(others) > 1 else others[0]
            return select(r[2], inner, const(w, 0))
    if op == "or" and len(rest) == 2 and rest[0][0] == "and" and rest[1][0] == "and":
        P, Q = set(map(id, rest[0][2:])), set(map(id, rest[1][2:]))
        dp = [x for x in rest[0][2:] if id(x) not in Q]
        dq = [x for x in rest[1][2:] if id(x) not in P]
        if len(dp) == 1 and len(dq) == 1 and dp[0] is not_(dq[0]):
            common = [x for x in rest[0][2:] if id(x) in Q]
            return nary("and", w, common) if len(common) > 1 else common[0]
    if op == "or" and len(rest) == 2:
        r = _rot_match(rest[0], rest[1]) or _rot_match(rest[1], rest[0])
        if r is not None:
            return r
    if op == "and" and len(rest) == 2:
        r = _shiftmask_match(rest[0], rest[1]) or _shiftmask_match(rest[1], rest[0])
        if r is not None:
            return r
    if op in ("or", "and", "xor") and len(rest) >= 2 and all(x[0] == "rep" for x in rest):
        return rep(w, nary(op, 1, [x[2] for x in rest]))
    if op == "or" and len(rest) >= 2:
        # or(select(c,a,0), select(c,0,b)) -> select(c,a,b)
        sels = [x for x in rest if x[0] == "select"]
        for i in range(len(sels)):
            for j in range(len(sels)):
                if i == j:
                    continue
                p, q = sels[i], sels[j]
                if p[2] is q[2] and is_zero(p[4]) and is_zero(q[3]):
                    others = [x for x in rest if x is not p and x is not q]
                    m = select(p[2], p[3], q[4])
                    return nary("or", w, others + [m]) if others else m
    if op == "add" and len(rest) == 2:
        cs2 = [x for x in rest if all_ones(x)]
        zs = [x for x in rest if x[0] == "concat" and len(x) == 4 and x[2][1] == 1 and is_zero(x[3])]
        if cs2 and zs:
            return rep(w, not_(zs[0][2]))
    if op == "add":
        # add(x, neg y) -> sub
        negs = [x for x in rest if x[0] == "neg"]
        if negs and len(rest) == 2:
            n = negs[0]
            o = rest[1] if rest[0] is n else rest[0]
            return sub(o, n[2])
    if not rest:
        ident = {"and": mask(w), "or": 0, "xor": 0, "add": 0, "mul": 1}[op]
        return const(w, ident)
    if len(rest) == 1:
        return rest[0]
    rest.sort(key=ser)
    return mk(op, w, *rest)


def _is_w_minus(m, k, w):
    """m == w - zext(k) as terms (any width)"""
    if m[0] == "sub" and m[2][0] == "const" and m[2][2] == w:
        return strip_zext(m[3]) is k
    if m[0] == "add":
        # w + neg(zext k)
        cs = [x for x in m[2:] if x[0] == "const"]
        ns = [x for x in m[2:] if x[0] == "neg"]
        if len(m) == 4 and cs and ns and cs[0][2] == w:
            return strip_zext(ns[0][2]) is k
    return False


def _w_minus_k(m, w):
    """if m == w - zext(k) return k"""
    if m[0] == "sub" and m[2][0] == "const" and m[2][2] == w:
        return strip_zext(m[3])
    if m[0] == "add" and len(m) == 4:
        cs = [x for x in m[2:] if x[0] == "const"]
        ns = [x for x in m[2:] if x[0] == "neg"]
        if cs and ns and cs[0][2] == w:
            return strip_zext(ns[0][2])
    return None


def _rot_match(p, q):
    """or(shlsat(x,k), lshrsat(x, w-k)) with k < w  ->  rotate left by k"""
    if p[0] == "shlsat" and q[0] == "lshrsat" and p[2] is q[2]:
        w = p[1]
        k, m = p[3], q[3]
        if w & (w - 1) == 0 and k[1] <= w.bit_length() - 1 and _is_w_minus(m, k, w):
            return fsh("fshl", p[2], p[2], k)
        if w & (w - 1) == 0 and m[1] <= w.bit_length() - 1 and _is_w_minus(k, m, w):
            return fsh("fshr", p[2], p[2], m)
    return None


def _shiftmask_match(v, m):
    """and(window of (X << s), low bits of (ones << s)) -> window(X) << s
    and(window of (X >> s), low bits of (ones >> s)) -> window(X) >> s (logical)"""
    w = v[1]
    if m[0] == "slice" and m[3] == 0:
        sh_ = m[2]
    else:
        sh_ = m
    if sh_[0] not in ("shl", "shlsat", "lshr", "lshrsat") or sh_[2][0] != "const":
        return None
    kind = sh_[0].replace("sat", "")
    c = sh_[2][2]
    if v[0] == "slice":
        X, lo = v[2], v[3]
    else:
        X, lo = v, 0
    if X[0] != kind + "sat" or X[3] is not sh_[3]:
        return None
    if kind == "shl" and (c & mask(w)) == mask(w):
        return shift("shl", slice_(X[2], lo, w), X[3], True)
    if kind == "lshr" and c == mask(w) and sh_[1] >= w:
        return shift("lshr", slice_(X[2], lo, w), X[3], True)
    return None


def and_(a, b):
    return nary("and", a[1], [a, b])


def or_(a, b):
    return nary("or", a[1], [a, b])


def xor(a, b):
    return nary("xor", a[1], [a, b])


def add(a, b):
    return nary("add", a[1], [a, b])


def mul(a, b):
    return nary("mul", a[1], [a, b])


def sub(a, b):
    w = a[1]
    if b[0] == "rep" and a[0] == "xor" and len(a) == 4 and (a[2] is b or a[3] is b):
        x = a[3] if a[2] is b else a[2]
        return select(b[2], neg(x), x)
    if b[0] == "const":
        return add(a, const(w, -b[2]))
    if a is b:
        return const(w, 0)
    if is_zero(a):
        return neg(b)
    if b[0] == "neg":
        return add(a, b[2])
    if b[0] == "sub" and b[2] is a:
        return b[3]
    return mk("sub", w, a, b)


def neg(a):
    if a[0] == "rep":
        return zext(a[2], a[1])
    if a[0] == "concat" and len(a) == 4 and a[2][1] == 1 and is_zero(a[3]):
        return rep(a[1], a[2])
    if a[0] == "const":
        return const(a[1], -a[2])
    if a[0] == "neg":
        return a[2]
    if a[0] == "sub":
        return sub(a[3], a[2])
    return mk("neg", a[1], a)


# ---------------------------------------------------------------- shifts

def shl_c(x, c):
    w = x[1]
    if c == 0:
        return x
    if c >= w:
        return const(w, 0)
    return concat([const(c, 0), slice_(x, 0, w - c)])


def lshr_c(x, c):
    w = x[1]
    if c == 0:
        return x
    if x[0] == "popsum" and c < w:
        its = popsum_items(x)
        if x[2] % (1 << c) == 0 and all(m % (1 << c) == 0 for b, m in its):
            return popsum(w, [(b, m >> c) for b, m in its], x[2] >> c)
    if c >= w:
        return const(w, 0)
    return concat([slice_(x, c, w - c), const(c, 0)])


def ashr_c(x, c):
    w = x[1]
    if c == 0:
        return x
    if c >= w:
        return rep(w, msb(x))
    return concat([slice_(x, c, w - c), rep(c, msb(x))])


def rotl_c(x, c):
    w = x[1]
    c %= w
    if c == 0:
        return x
    return concat([slice_(x, w - c, c), slice_(x, 0, w - c)])


def shift(kind, x, amt, sat):
    """kind in shl lshr ashr; amt a term of any width (unsigned);
    sat=True: x86 semantics (amount >= width gives 0 / sign fill);
    sat=False: LLVM semantics (amount >= width is poison)."""
    w = x[1]
    if amt[0] == "const":
        c = amt[2]
        if c >= w and not sat:
            return mk("poison", w)
        return {"shl": shl_c, "lshr": lshr_c, "ashr": ashr_c}[kind](x, min(c, w))
    # strip leading zero bits of the amount (zext)
    amt = strip_zext(amt)
    if not sat and (1 << amt[1]) - 1 < w:
        sat = True      # the amount cannot reach the width: no poison case
    if kind == "ashr" and amt[0] == "select" and amt[4][0] == "const" and amt[4][2] == w - 1:
        # ashr(x, min(k, w-1)) == saturating arithmetic shift by k
        c, A = amt[2], strip_zext(amt[3])
        if c[0] == "icmp" and c[2] == "ult" and c[4][0] == "const" and c[4][2] == w - 1 and c[3] is A:
            return mk("ashrsat", w, x, A)
    if kind == "ashr" and amt[0] == "call:llvm.umin" and any(y[0] == "const" and y[2] == w - 1 for y in amt[2:]):
        A = [y for y in amt[2:] if y[0] != "const"]
        if len(A) == 1:
            return mk("ashrsat", w, x, strip_zext(A[0]))
    if sat and x[0] == "concat" and len(x) >= 3:
        top = x[-1]
        low = concat(list(x[2:-1]))
        if kind == "ashr" and top[0] == "rep" and top[2] is msb(low):
            return sext(shift("ashr", low, amt, True), w)
        if kind == "lshr" and is_zero(top):
            return zext(shift("lshr", low, amt, True), w)
    if x[0] == "const" and x[2] == 0:
        return x
    return mk(kind + ("sat" if sat else ""), w, x, amt)


def strip_zext(t):
    while t[0] == "concat" and is_zero(t[-1]):
        t = concat(list(t[2:-1]))
    return t


def fsh(kind, a, b, amt):
    """llvm.fshl / fshr (amount modulo width)."""
    w = a[1]
    if amt[0] == "const":
        c = amt[2] % w
        if a is b:
            return rotl_c(a, c if kind == "fshl" else (w - c) % w)
        cc = concat([b, a])  # a is the high half
        if kind == "fshl":
            return slice_(cc, w - c, w) if c else a
        return slice_(cc, c, w)
    if w & (w - 1) == 0:
        lg = w.bit_length() - 1
        if amt[1] > lg:
            amt = slice_(amt, 0, lg)
        if amt[0] == "const":
            return fsh(kind, a, b, amt)
    return mk(kind, w, a, b, strip_zext(amt))


# ---------------------------------------------------------------- compare / select

INV = {"eq": "ne", "ne": "eq", "ult": "uge", "uge": "ult", "ugt": "ule", "ule": "ugt",
       "slt": "sge", "sge": "slt", "sgt": "sle", "sle": "sgt"}
SWAP = {"eq": "eq", "ne": "ne", "ult": "ugt", "ugt": "ult", "ule": "uge", "uge": "ule",
        "slt": "sgt", "sgt": "slt", "sle": "sge", "sge": "sle"}
FINV = {"oeq": "une", "une": "oeq", "olt": "uge", "uge": "olt", "ole": "ugt", "ugt": "ole",
        "ogt": "ule", "ule": "ogt", "oge": "ult", "ult": "oge", "one": "ueq", "ueq": "one",
        "ord": "uno", "uno": "ord", "true": "false", "false": "true"}
FSWAP = {"oeq": "oeq", "une": "une", "olt": "ogt", "ogt": "olt", "ole": "oge", "oge": "ole",
         "ult": "ugt", "ugt": "ult", "ule": "uge", "uge": "ule", "one": "one", "ueq": "ueq",
         "ord": "ord", "uno": "uno", "true": "true", "false": "false"}


def _signed(v, w):
    return v - (1 << w) if v >> (w - 1) else v


def eval_icmp(pred, a, b, w):
    if pred[0] == "s":
        a, b = _signed(a, w), _signed(b, w)
    return {"eq": a == b, "ne": a != b, "ult": a < b, "ule": a <= b, "ugt": a > b,
            "uge": a >= b, "slt": a < b, "sle": a <= b, "sgt": a > b, "sge": a >= b}[pred]


def fdecode(v, w):
    """IEEE bit pattern -> python float (exact for comparisons)"""
    import struct
    if w == 32:
        return struct.unpack("<f", struct.pack("<I", v))[0]
    if w == 64:
        return struct.unpack("<d", struct.pack("<Q", v))[0]
    raise Uneval("float width")


def fencode(x, w):
    import struct
    if x != x:
        raise Uneval("NaN result")
    if w == 32:
        try:
            return struct.unpack("<I", struct.pack("<f", x))[0]
        except OverflowError:
            return 0x7F800000 if x > 0 else 0xFF800000
    return struct.unpack("<Q", struct.pack("<d", x))[0]


def eval_farith(o, a, b, w):
    """IEEE round-to-nearest result of a binary float op on bit patterns
    (float32 via double: innocuous double rounding for + - * / sqrt)."""
    import math
    x, y = fdecode(a, w), fdecode(b, w)
    if x != x or y != y:
        raise Uneval("NaN operand")
    try:
        if o == "fadd":
            r = x + y
        elif o == "fsub":
            r = x - y
        elif o == "fmul":
            r = x * y
        elif o == "fdiv":
            if y == 0:
                if x == 0:
                    raise Uneval("0/0")
                neg_ = (math.copysign(1, x) < 0) != (math.copysign(1, y) < 0)
                r = -math.inf if neg_ else math.inf
            else:
                r = x / y
        else:
            raise Uneval(o)
    except OverflowError:
        raise Uneval("overflow")
    return fencode(r, w)


FP_OPS = {"fadd", "fsub", "fmul", "fdiv", "call:llvm.sqrt", "call:llvm.fma", "call:llvm.fmuladd",
          "call:llvm.trunc", "call:llvm.floor", "call:llvm.ceil", "call:llvm.round", "call:llvm.roundeven",
          "call:llvm.rint", "sitofp", "uitofp", "fptosi", "fptoui", "fpext", "fptrunc", "x86.cvt", "x86.scalef",
          "x86.reduce", "x86.rndscale"}


def has_fp(t):
    """does the closed form contain rounding-mode sensitive float arithmetic"""
    seen = set()
    if contains_op(t, ("spec:c_fdim", "spec:c_frac", "spec:c_ldexp", "mxcsr0")):
        return True
    stack = [t]
    while stack:
        x = stack.pop()
        if not isinstance(x, tuple) or id(x) in seen:
            continue
        seen.add(id(x))
        if x[0] in FP_OPS or x[0].startswith("fr:"):
            return True
        for y in x[2:]:
            if isinstance(y, tuple):
                stack.append(y)
    return False


def _ev_fp(t, env, memo):
    import fpeval
    o = t[0]
    w = t[1]
    rm = env.get("rm", "RN")
    if o.startswith("fr:"):
        # fixed-rounding form  fr:<mode>:<op>
        _, rm, o = o.split(":", 2)
    if w not in (32, 64, 80) and o not in ("fptosi", "fptoui", "x86.cvt"):
        raise Uneval("float width %d" % w)
    if env.get("daz") and o in ("fadd", "fsub", "fmul", "fdiv"):
        x_, y_ = daz_flush(ev(t[2], env, memo), w), daz_flush(ev(t[3], env, memo), w)
        if o in ("fadd", "fsub"):
            return fpeval.add(x_, y_, w, rm, sub=(o == "fsub"))
        return fpeval.mul(x_, y_, w, rm) if o == "fmul" else fpeval.div(x_, y_, w, rm)
    if env.get("daz") and o not in ("sitofp", "uitofp"):
        raise Uneval("float step %s under DAZ is not modelled" % o)
    if o in ("fadd", "fsub"):
        return fpeval.add(ev(t[2], env, memo), ev(t[3], env, memo), w, rm, sub=(o == "fsub"))
    if o == "fmul":
        return fpeval.mul(ev(t[2], env, memo), ev(t[3], env, memo), w, rm)
    if o == "fdiv":
        return fpeval.div(ev(t[2], env, memo), ev(t[3], env, memo), w, rm)
    if o == "call:llvm.sqrt":
        return fpeval.sqrt(ev(t[2], env, memo), w, rm)
    if o in ("call:llvm.fma", "call:llvm.fmuladd"):
        return fpeval.fma(ev(t[2], env, memo), ev(t[3], env, memo), ev(t[4], env, memo), w, rm)
    if o.startswith("call:llvm."):
        return fpeval.to_integral(ev(t[2], env, memo), w, o[10:], rm)
    if o in ("sitofp", "uitofp"):
        return fpeval.from_int(ev(t[2], env, memo), t[2][1], o == "sitofp", w, rm)
    if o in ("fptosi", "fptoui"):
        sw = t[2][1]
        v = ev(t[2], env, memo)
        d = fpeval.decode(v, sw)
        if d[0] in ("nan", "inf"):
            raise Poison("%s of NaN/inf" % o)
        r = fpeval.to_int(v, sw, w + 1 if o == "fptoui" else w, o == "fptosi" or True, "trunc", rm)
        n = fpeval.decode(fpeval.to_integral(v, sw, "trunc"), sw)
        n = 0 if n[0] == "zero" else int(n[1])
        lo, hi = (-(1 << (w - 1)), (1 << (w - 1)) - 1) if o == "fptosi" else (0, (1 << w) - 1)
        if not lo <= n <= hi:
            raise Poison("%s out of range" % o)
        return n & mask(w)
    if o in ("fpext", "fptrunc"):
        return fpeval.convert(ev(t[2], env, memo), t[2][1], w, rm)
    if o == "x86.scalef":
        return fpeval.x86_scalef(ev(t[2], env, memo), ev(t[3], env, memo), w, rm)
    if o == "x86.reduce":
        return fpeval.x86_reduce(ev(t[2], env, memo), t[3], w, rm)
    if o == "x86.rndscale":
        return fpeval.x86_rndscale(ev(t[2], env, memo), t[3], w, rm)
    if o == "x86.cvt":
        # (x, signed, how)  how in trunc / rint
        x = t[2]
        return fpeval.to_int(ev(x, env, memo), x[1], w, bool(t[3]), t[4], rm)
    raise Uneval(o)


def fsub(w, a, b):
    """x - c == x + (-c) (LLVM canonical form)"""
    if b[0] == "const":
        return opc("fadd", w, a, const(w, b[2] ^ (1 << (w - 1))))
    return mk("fsub", w, a, b)


def daz_flush(v, w):
    """denormals-are-zero: a denormal source operand is read as a zero of the same sign"""
    mb = 23 if w == 32 else 52
    if (v >> mb) & ((1 << (w - 1 - mb)) - 1) == 0:
        return v & (1 << (w - 1))
    return v


def eval_fcmp(pred, a, b, w, daz=False):
    if daz and w in (32, 64):
        a, b = daz_flush(a, w), daz_flush(b, w)
    x, y = fdecode(a, w), fdecode(b, w)
    un = (x != x) or (y != y)
    if pred == "ord":
        return not un
    if pred == "uno":
        return un
    base = {"eq": x == y, "ne": x != y, "lt": x < y, "le": x <= y, "gt": x > y, "ge": x >= y}[pred[1:]]
    if pred[0] == "o":
        return (not un) and base
    return un or base


FLIPSIGN = {"ult": "slt", "slt": "ult", "ule": "sle", "sle": "ule", "ugt": "sgt", "sgt": "ugt",
            "uge": "sge", "sge": "uge", "eq": "eq", "ne": "ne"}


def _signflip(t):
    """if t == x xor signbit (as concat{x[0:w-1], not msb(x)}), return x"""
    if t[0] == "concat" and t[-1][0] == "not" and t[-1][1] == 1:
        x = concat(list(t[2:-1]) + [t[-1][2]])
        if x[0] in ("arg", "mem", "slice"):
            return x
    return None


def _oriented(c, x):
    """icmp c as (pred, x, other) with x first, or None"""
    if c[3] is x:
        return c[2], c[3], c[4]
    if c[4] is x:
        return SWAP[c[2]], c[4], c[3]
    return None


def _lexmerge(rest):
    """or(P(hi), and(Q(lo), eq(hi))) -> one wide compare (1-bit terms)"""
    for P in rest:
        if P[0] != "icmp" or P[2] not in ("ugt", "ult", "sgt", "slt"):
            continue
        for A in rest:
            if A is P or A[0] != "and" or len(A) != 4:
                continue
            for E, Q in ((A[2], A[3]), (A[3], A[2])):
                if E[0] != "icmp" or E[2] != "eq" or Q[0] != "icmp":
                    continue
                if not ((E[3] is P[3] and E[4] is P[4]) or (E[3] is P[4] and E[4] is P[3])):
                    continue
                xh, yh = P[3], P[4]
                for ql, qr in ((Q[3], Q[4]), (Q[4], Q[3])):
                    mx = _merge(ql, xh)
                    my = _merge(qr, yh)
                    if mx is None or my is None:
                        continue
                    qp = Q[2] if ql is Q[3] else SWAP[Q[2]]
                    if qp[0] != "u":
                        continue
                    pp = P[2]
                    if pp[1] != qp[1]:      # direction (g/l) must agree
                        continue
                    newp = pp[0] + qp[1:]
                    others = [x for x in rest if x is not P and x is not A]
                    return others + [icmp(newp, mx, my)]
    return None


def _bool_expand(pred, a, b):
    """eq/ne of bit-decomposable values as a boolean formula over the bits"""
    if a[1] > 64:
        pa = bit_parts(a)
        if pa is None or len(pa) > 64:
            return None
    pa = bit_parts(a)
    if pa is None:
        return None
    parts_ = a[2:] if a[0] == "concat" else (a,)
    if not any(p[1] == 1 or p[0] == "rep" for p in parts_ if p[0] != "const"):
        return None
    if b[0] == "const":
        # walk the bits of a against the constant
        terms = []
        pos = 0
        parts = a[2:] if a[0] == "concat" else (a,)
        for p in parts:
            cbits = (b[2] >> pos) & mask(p[1])
            if p[0] == "const":
                if p[2] != cbits:
                    return const(1, int(pred == "ne"))
            elif p[1] == 1:
                terms.append(p if cbits else not_(p))
            elif p[0] == "rep":
                if cbits == mask(p[1]):
                    terms.append(p[2])
                elif cbits == 0:
                    terms.append(not_(p[2]))
                else:
                    return const(1, int(pred == "ne"))
            elif p[0] == "arg":
                for i in range(p[1]):
                    bt = arg(p[2], p[3] + i, 1)
                    terms.append(bt if (cbits >> i) & 1 else not_(bt))
            else:
                return None
            pos += p[1]
        r = nary("and", 1, terms) if len(terms) > 1 else (terms[0] if terms else const(1, 1))
        return r if pred == "eq" else not_(r)
    pb = bit_parts(b)
    if pb is None or b[0] in ("arg", "mem"):
        return None
    # both structured: compare part-wise when the part boundaries agree
    if a[0] == "concat" and b[0] == "concat" and _boundaries(a) == _boundaries(b):
        terms = []
        for p, q in zip(a[2:], b[2:]):
            terms.append(icmp("eq", p, q))
        r = nary("and", 1, terms)
        return r if pred == "eq" else not_(r)
    return None


def icmp(pred, a, b):
    w = a[1]
    assert b[1] == w
    if a[0] == "const" and b[0] == "const":
        return const(1, int(eval_icmp(pred, a[2], b[2], w)))
    if a is b:
        return const(1, int(pred in ("eq", "ule", "uge", "sle", "sge")))
    # strict/non-strict against constants: canonical strict forms (as LLVM)
    if b[0] == "const":
        c = b[2]
        sc = _signed(c, w)
        if pred == "slt" and c == 0:
            return msb(a)
        if pred == "sgt" and c == mask(w):
            return not_(msb(a))
        if pred == "sge" and c == 0:
            return not_(msb(a))
        if pred == "sle" and c == mask(w):
            return msb(a)
        if pred == "ult" and c == 1:
            pred, b = "eq", const(w, 0)
        elif pred == "ugt" and c == 0:
            pred, b = "ne", const(w, 0)
        elif pred == "ule" and c != mask(w):
            pred, b = "ult", const(w, c + 1)
        elif pred == "uge" and c != 0:
            pred, b = "ugt", const(w, c - 1)
        elif pred == "sle" and sc != (1 << (w - 1)) - 1:
            pred, b = "slt", const(w, c + 1)
        elif pred == "sge" and sc != -(1 << (w - 1)):
            pred, b = "sgt", const(w, c - 1)
        if w == 1:
            # 1-bit compares are boolean functions
            c = b[2]
            if pred == "eq":
                return a if c else not_(a)
            if pred == "ne":
                return not_(a) if c else a
    elif a[0] == "const":
        return icmp(SWAP[pred], b, a)
    if pred in ("eq", "ne") and b[0] == "const" and b[2] == 1 and a[0] == "popsum" and a[2] == 0 and w > 1:
        its = popsum_items(a)
        if its and all(m == 1 for _b, m in its):
            # popcount == 1  <=>  some bit set  and  popcount < 2
            r = nary("and", 1, [icmp("ne", concat([bt for bt, _m in its]), const(len(its), 0)),
                                icmp("ult", a, const(w, 2))])
            return r if pred == "eq" else not_(r)
    if pred in ("eq", "ne") and b[0] == "const" and a[0] == "concat":
        # (zext x) == c  with c fitting -> x == c
        hi = a[-1]
        if is_zero(hi):
            lo_w = w - hi[1]
            if b[2] >> lo_w == 0:
                return icmp(pred, concat(list(a[2:-1])), const(lo_w, b[2]))
            return const(1, int(pred == "ne"))
    if w == 1 and pred in ("eq", "ne") and a[0] != "const" and b[0] != "const":
        x = xor(a, b)
        return not_(x) if pred == "eq" else x
    if a[0] == "rep" and b[0] == "rep" and pred in ("eq", "ne"):
        x = xor(a[2], b[2])
        return not_(x) if pred == "eq" else x
    if b[0] == "const" and pred in ("ugt", "uge", "ult", "ule") and a[0] in ("sub", "select"):
        ub = ubound(a)
        if ub is not None:
            if pred == "ugt" and ub <= b[2]:
                return const(1, 0)
            if pred == "uge" and ub < b[2]:
                return const(1, 0)
            if pred == "ule" and ub <= b[2]:
                return const(1, 1)
            if pred == "ult" and ub < b[2]:
                return const(1, 1)
    if a[0] == "concat" and is_zero(a[-1]) and b[0] == "const":
        lw = w - a[-1][1]
        c = b[2]
        if pred[0] == "s" and not (c >> (w - 1)):
            pred = "u" + pred[1:]
        if pred[0] == "u" or pred in ("eq", "ne"):
            if c >> lw:
                return const(1, int(pred in ("ne", "ult", "ule")))
            return icmp(pred, slice_(a, 0, lw), const(lw, c))
    if pred in ("eq", "ne") and is_zero(b) and a[0] == "xor" and len(a) == 4:
        return icmp(pred, a[2], a[3])
    if pred in ("eq", "ne") and a[0] != "arg" and a[0] != "mem":
        r = _bool_expand(pred, a, b)
        if r is not None:
            return r
    if a[0] == "concat" and b[0] == "concat" and is_zero(a[-1]) and is_zero(b[-1]):
        k = min(a[-1][1], b[-1][1])
        if pred in ("eq", "ne") or pred[0] == "u":
            return icmp(pred, slice_(a, 0, w - k), slice_(b, 0, w - k))
    fa, fb = _signflip(a), _signflip(b)
    if fa is not None and fb is not None and pred not in ("eq", "ne"):
        return icmp(FLIPSIGN[pred], fa, fb)
    if fa is not None and b[0] == "const" and pred not in ("eq", "ne"):
        return icmp(FLIPSIGN[pred], fa, const(w, b[2] ^ (1 << (w - 1))))
    if b[0] != "const" and ser(a) > ser(b):
        a, b = b, a
        pred = SWAP[pred]
    # canonical predicate set: keep lt/gt/eq/ne/le/ge as is (no further folding)
    return mk("icmp", 1, pred, a, b)


def fcmp(pred, a, b):
    if pred == "true":
        return const(1, 1)
    if pred == "false":
        return const(1, 0)
    if b[0] != "const" and (a[0] == "const" or ser(a) > ser(b)):
        a, b = b, a
        pred = FSWAP[pred]
    if a is b:
        # x cmp x: ordered-equal family reduces to ord/uno
        red = {"oeq": "ord", "oge": "ord", "ole": "ord", "ueq": "true", "uge": "true",
               "ule": "true", "one": "false", "olt": "false", "ogt": "false",
               "une": "uno", "ult": "uno", "ugt": "uno"}
        if pred in red:
            pred = red[pred]
            if pred in ("true", "false"):
                return const(1, int(pred == "true"))
    return mk("fcmp", 1, pred, a, b)


def select(c, a, b):
    assert c[1] == 1 and a[1] == b[1], (c[:2], a[:2], b[:2])
    w = a[1]
    if c[0] == "const":
        return a if c[2] else b
    if a is b:
        return a
    if c[0] == "not":
        return select(c[2], b, a)
    if c[0] in ("icmp",) and c[2] in ("ne", "ule", "uge", "sle", "sge"):
        return select(icmp(INV[c[2]], c[3], c[4]), b, a)
    if c[0] == "fcmp" and c[2] in ("une", "uge", "ugt", "ule", "ult", "ueq", "uno"):
        # canonical: ordered predicate as condition
        return select(fcmp(FINV[c[2]], c[3], c[4]), b, a)
    if a[0] == "const" and b[0] == "const":
        if a[2] == mask(w) and b[2] == 0:
            return rep(w, c)
        if a[2] == 0 and b[2] == mask(w):
            return rep(w, not_(c))
        if w > 1:
            # bitwise: each bit is c, not c, 0 or 1
            parts = []
            for i in range(w):
                x, y = (a[2] >> i) & 1, (b[2] >> i) & 1
                parts.append(const(1, x) if x == y else (c if x else not_(c)))
            return concat(parts)
    if c[0] == "icmp" and c[2] in ("ugt", "uge") and c[4][0] == "const" and \
            b[0] in ("shlsat", "lshrsat", "ashrsat", "shl", "lshr", "ashr"):
        K = c[4][2] + (0 if c[2] == "uge" else 1)       # condition: amt >= K
        amt = b[3]
        kind = b[0].replace("sat", "")
        if strip_zext(c[3]) is amt and (K >= w if b[0].endswith("sat") else K == w):
            # explicit guard "amount >= width ? fill : x shift amount" == saturating shift
            if kind in ("shl", "lshr") and is_zero(a):
                return mk(kind + "sat", w, b[2], amt)
            if kind == "ashr" and a is rep(w, msb(b[2])):
                return mk(kind + "sat", w, b[2], amt)
    if c[0] == "icmp" and c[2] in ("ult", "ule", "ugt", "uge", "slt", "sle", "sgt", "sge") and \
            ((c[3] is a and c[4] is b) or (c[3] is b and c[4] is a)):
        pr = c[2] if c[3] is a else SWAP[c[2]]       # predicate as "a pr b" ; a is chosen when true
        sgn = pr[0]
        less = pr[1] == "l"
        name = "call:llvm.%s%s" % (sgn, "min" if less else "max")
        return opc(name, w, a, b)
    if c[1] == 1 and b[0] == "neg" and b[2] is a and c is msb(a):
        pass
    if a[0] == "neg" and a[2] is b and c is msb(b):
        return mk("call:llvm.abs", w, b, const(1, 0))
    if b[0] == "neg" and b[2] is a and c is msb(a):
        return neg(mk("call:llvm.abs", w, a, const(1, 0)))
    if w == 1 and a is not_(b):
        return xor(c, b)
    if c[0] == "icmp" and c[2] == "sgt" and is_zero(c[4]) and a[0] == "neg" and a[2] is b and c[3] is b:
        return neg(mk("call:llvm.abs", w, b, const(1, 0)))
    if c[0] == "icmp" and c[2] == "sgt" and is_zero(c[4]) and b[0] == "neg" and b[2] is a and c[3] is a:
        return mk("call:llvm.abs", w, a, const(1, 0))
    if c[0] == "icmp" and c[2] == "eq" and is_zero(c[4]) and b[0] in ("fshl", "fshr") and \
            b[2] is b[3] and a is b[2] and strip_zext(c[3]) is b[4]:
        return b        # rotation by 0 is the identity
    if a[0] == "rep" and b[0] == "const" and (b[2] == 0 or b[2] == mask(w)):
        return rep(w, select(c, a[2], const(1, 1 if b[2] else 0)))
    if b[0] == "rep" and a[0] == "const" and (a[2] == 0 or a[2] == mask(w)):
        return rep(w, select(c, const(1, 1 if a[2] else 0), b[2]))
    if a[0] == "rep" and b[0] == "rep":
        return rep(w, select(c, a[2], b[2]))
    if w == 1:
        if a[0] == "const":
            return or_(c, b) if a[2] else and_(not_(c), b)
        if b[0] == "const":
            return or_(not_(c), a) if b[2] else and_(c, a)
    # nested select on the same condition
    if a[0] == "select" and a[2] is c:
        a = a[3]
    if b[0] == "select" and b[2] is c:
        b = b[4]
    if a is b:
        return a
    # split across concat boundaries (selects of packed lanes)
    cuts = set(_boundaries(a)) | set(_boundaries(b))
    if cuts and (a[0] == "concat" or b[0] == "concat") and \
            (a[0] in ("concat", "arg", "const", "mem") and b[0] in ("concat", "arg", "const", "mem")):
        cl = sorted(cuts)
        parts = []
        lo = 0
        for k in cl + [w]:
            parts.append(select(c, slice_(a, lo, k - lo), slice_(b, lo, k - lo)))
            lo = k
        return concat(parts)
    return mk("select", w, c, a, b)


# ---------------------------------------------------------------- saturation / truth tables

def saturate(kind, x, ow):
    """kind 'us': signed source -> unsigned saturate to ow bits;
       'ss': signed source -> signed saturate to ow bits"""
    w = x[1]
    if x[0] == "const":
        v = _signed(x[2], w)
        if kind == "us":
            return const(ow, max(0, min(v, mask(ow))))
        return const(ow, max(-(1 << (ow - 1)), min(v, (1 << (ow - 1)) - 1)))
    if kind == "us" and x[0] == "concat":
        # zero-extended value that fits: exact truncation
        lowparts = slice_(x, ow, w - ow)
        if is_zero(lowparts):
            return slice_(x, 0, ow)
    if kind == "ss":
        hi = slice_(x, ow - 1, w - ow + 1)
        if hi[0] == "rep" or hi[1] == 1:
            # sign-extended value that fits
            return slice_(x, 0, ow)
    return mk("sat" + kind, ow, x)


def truth3(a, b, c, imm):
    """bitwise function of three values given by an 8-entry truth table"""
    w = a[1]
    vs = []
    for v in (a, b, c):
        if not any(v is u for u in vs):
            vs.append(v)
    idx = [[i for i, u in enumerate(vs) if u is v][0] for v in (a, b, c)]
    nv = len(vs)
    tt = []
    for row in range(1 << nv):
        bits_ = [(row >> (nv - 1 - k)) & 1 for k in range(nv)]
        ra, rb, rc = bits_[idx[0]], bits_[idx[1]], bits_[idx[2]]
        tt.append((imm >> ((ra << 2) | (rb << 1) | rc)) & 1)

    def synth(vars_, table):
        if all(t == 0 for t in table):
            return const(w, 0)
        if all(t == 1 for t in table):
            return const(w, mask(w))
        v = vars_[0]
        half = len(table) // 2
        f0 = synth(vars_[1:], table[:half]) if len(vars_) > 1 else const(w, mask(w) if table[0] else 0)
        f1 = synth(vars_[1:], table[half:]) if len(vars_) > 1 else const(w, mask(w) if table[1] else 0)
        if f0 is f1:
            return f0
        if is_zero(f0) and all_ones(f1):
            return v
        if all_ones(f0) and is_zero(f1):
            return not_(v)
        if is_zero(f0):
            return and_(v, f1)
        if is_zero(f1):
            return and_(not_(v), f0)
        if all_ones(f1):
            return or_(v, f0)
        if all_ones(f0):
            return or_(not_(v), f1)
        if f1 is not_(f0):
            return xor(v, f0)
        return or_(and_(v, f1), and_(not_(v), f0))
    return synth(vs, tt)


# ---------------------------------------------------------------- population sums

def bit_parts(t):
    """decompose t into a list of (1-bit term, multiplicity) if every part is
    a 1-bit term, a rep of one, or a constant; else None"""
    parts = t[2:] if t[0] == "concat" else (t,)
    out = []
    for p in parts:
        if p[0] == "const":
            k = bin(p[2]).count("1")
            if k:
                out.append((const(1, 1), k))
        elif p[1] == 1:
            out.append((p, 1))
        elif p[0] == "rep":
            out.append((p[2], p[1]))
        elif p[0] == "arg" and p[1] <= 64:
            for i in range(p[1]):
                out.append((arg(p[2], p[3] + i, 1), 1))
        else:
            return None
    return out


def popsum(w, items, c0=0):
    """sum of mult * bit, as a w-bit number"""
    acc = {}
    order = {}
    c = c0
    for b, m in items:
        if b[0] == "const":
            c += m * b[2]
            continue
        acc[id(b)] = acc.get(id(b), 0) + m
        order[id(b)] = b
    its = sorted(((order[k], m) for k, m in acc.items() if m), key=lambda x: ser(x[0]))
    if not its:
        return const(w, c)
    if len(its) == 1 and its[0][1] == 1 and c == 0:
        return zext(its[0][0], w)
    flat = []
    for b, m in its:
        flat.append(b)
        flat.append(m)
    return mk("popsum", w, c, *flat)


def popsum_items(t):
    return [(t[i], t[i + 1]) for i in range(3, len(t), 2)]


def popsum_max(t):
    return t[2] + sum(m for b, m in popsum_items(t))


def _to_linear(t):
    """t as const + sum(mult * bit) or None"""
    w = t[1]
    if t[0] == "const":
        return t[2], []
    if t[0] == "popsum":
        return t[2], popsum_items(t)
    if t[0] == "rep":
        return 0, [(t[2], mask(w))]
    if t[1] == 1:
        return 0, [(t, 1)]
    if t[0] == "concat":
        c = 0
        items = []
        pos = 0
        nb = 0
        for p in t[2:]:
            if p[0] == "const":
                c |= p[2] << pos
            elif p[1] == 1:
                items.append((p, 1 << pos))
                nb += 1
            elif p[0] == "rep":
                items.append((p[2], mask(p[1]) << pos))
                nb += 1
            elif p[0] == "popsum":
                for b, m in popsum_items(p):
                    items.append((b, m << pos))
                c += p[2] << pos
                if popsum_max(p) >= (1 << p[1]):
                    return None
            else:
                return None
            pos += p[1]
        if nb > 8:
            return None
        return c, items
    return None


def ctpop(w, x):
    bp = bit_parts(x)
    if bp is not None:
        return popsum(w, bp)
    if x[0] == "const":
        return const(w, bin(x[2]).count("1"))
    return mk("call:llvm.ctpop", w, x)


# ---------------------------------------------------------------- generic ops

def _fold(t):
    """constant-fold an interpreted operation whose operands are all constants"""
    if all((not isinstance(x, tuple)) or x[0] == "const" for x in t[2:]):
        try:
            return const(t[1], ev(t, {"args": []}))
        except Uneval:
            return t
        except Exception:
            return t
    return t


def op(name, w, *args):
    """named operation: fadd, call:llvm.ctpop, ... (constant-folded when interpreted)"""
    return _fold(mk(name, w, *args))


COMM_OPS = {"fadd", "fmul", "call:llvm.umin", "call:llvm.umax", "call:llvm.smin",
            "call:llvm.smax", "call:llvm.minnum", "call:llvm.maxnum"}


def opc(name, w, a, b):
    if name in COMM_OPS and ser(a) > ser(b):
        a, b = b, a
    if a[0] == "const" and b[0] == "const" and not name.startswith("f"):
        return _fold(mk(name, w, a, b))
    return mk(name, w, a, b)


def ubound(t):
    """an upper bound of the unsigned value of t (None: no bound better than 2^w-1)"""
    w = t[1]
    if t[0] == "const":
        return t[2]
    if t[0] == "concat":
        # zero high part
        hi = 0
        pos = 0
        tot = 0
        for p in t[2:]:
            b = ubound(p)
            if b is None:
                b = mask(p[1])
            tot += b << pos
            pos += p[1]
        return tot
    if t[0] == "sub" and t[2][0] == "concat" and len(t[2]) == 4 and is_zero(t[2][2]):
        # align_up(x) - x  with align_up(x) = (x + 2^k - 1) & -2^k
        k = t[2][2][1]
        hi = t[2][3]
        x = t[3]
        if hi is slice_(add(x, const(w, (1 << k) - 1)), k, w - k):
            tz = 0
            if x[0] == "concat" and is_zero(x[2]):
                tz = min(x[2][1], k)
            return (1 << k) - (1 << tz)
    if t[0] == "select":
        a, b = ubound(t[3]), ubound(t[4])
        if a is not None and b is not None:
            return max(a, b)
    if t[0] in ("mul", "add"):
        bs = [ubound(x) for x in t[2:]]
        if all(b is not None for b in bs):
            r = 1 if t[0] == "mul" else 0
            for b in bs:
                r = r * b if t[0] == "mul" else r + b
            if r <= mask(w):
                return r
    if t[0] == "arg":
        return mask(w)
    return None


def nonzero(t):
    """t is provably different from zero"""
    if t[0] == "const":
        return t[2] != 0
    if t[0] == "select":
        c, a, b = t[2], t[3], t[4]
        if c[0] == "icmp" and c[2] == "eq" and is_zero(c[4]):
            # select(x == 0, a, b): b may be x itself
            if nonzero(a) and (b is c[3] or nonzero(b) or (b[0] in ("call:llvm.abs", "neg") and b[2] is c[3])):
                return True
        return nonzero(a) and nonzero(b)
    if t[0] == "or":
        return any(nonzero(x) for x in t[2:])
    if t[0] == "concat":
        return any(nonzero(p) for p in t[2:])
    if t[0] == "call:llvm.umax":
        return any(nonzero(x) for x in t[2:])
    return False


# ---------------------------------------------------------------- queries

def leaves(t, kinds=("arg", "mem"), _seen=None, _out=None):
    """set of leaf terms of the given kinds reachable from t"""
    if _seen is None:
        _seen = set()
        _out = []
    stack = [t]
    while stack:
        x = stack.pop()
        if not isinstance(x, tuple) or id(x) in _seen:
            continue
        _seen.add(id(x))
        if x[0] in kinds:
            _out.append(x)
            if x[0] == "mem":
                stack.append(x[2])
            continue
        for y in x[2:]:
            if isinstance(y, tuple):
                stack.append(y)
    return _out


def contains_op(t, names):
    seen = set()
    stack = [t]
    while stack:
        x = stack.pop()
        if not isinstance(x, tuple) or id(x) in seen:
            continue
        seen.add(id(x))
        if x[0] in names:
            return x
        for y in x[2:]:
            if isinstance(y, tuple):
                stack.append(y)
    return None


def size(t):
    seen = set()
    stack = [t]
    while stack:
        x = stack.pop()
        if not isinstance(x, tuple) or id(x) in seen:
            continue
        seen.add(id(x))
        for y in x[2:]:
            if isinstance(y, tuple):
                stack.append(y)
    return len(seen)


def show(t, depth=6, names=None):
    """compact printable form"""
    if not isinstance(t, tuple):
        return str(t)
    o = t[0]
    if o == "const":
        return "0x%x:%d" % (t[2], t[1])
    if o == "arg":
        nm = names[t[2]] if names and t[2] < len(names) else "arg%d" % t[2]
        return "%s[%d+%d]" % (nm, t[3], t[1])
    if o == "mem":
        return "mem(%s%+d.%d,%db)" % (show(t[2], depth - 1, names), t[3], t[4], t[1])
    if o == "undef":
        return "undef:%d" % t[1]
    if depth <= 0:
        return "%s:%d(...)" % (o, t[1])
    if o == "slice":
        return "%s[%d+%d]" % (show(t[2], depth - 1, names), t[3], t[1])
    if o == "concat":
        parts = list(t[2:])
        if len(parts) > 6:
            return "concat:%d{%s, ... %d more}" % (t[1], ", ".join(show(p, depth - 1, names) for p in parts[:4]), len(parts) - 4)
        return "concat:%d{%s}" % (t[1], ", ".join(show(p, depth - 1, names) for p in parts))
    if o in ("icmp", "fcmp"):
        return "%s %s(%s, %s)" % (o, t[2], show(t[3], depth - 1, names), show(t[4], depth - 1, names))
    return "%s:%d(%s)" % (o, t[1], ", ".join(show(x, depth - 1, names) for x in t[2:]))


# ---------------------------------------------------------------- evaluation of closed forms
# Used only to exhibit a point where two *summaries* differ (witness for a
# REFUTED verdict).  The program under analysis is never run.

class Uneval(Exception):
    pass


class Poison(Uneval):
    """the closed form is undefined (poison / UB) at this point"""


def _clz(v, w):
    return w - v.bit_length()


def _ctz(v, w):
    if v == 0:
        return w
    return (v & -v).bit_length() - 1


def ev(t, env, memo=None):
    if memo is None:
        memo = {}
    k = id(t)
    if k in memo:
        return memo[k]
    r = _ev(t, env, memo)
    memo[k] = r
    w = env.get("watch")
    if w is not None and k in w:
        for opn, flags, a, b, loc in w[k]:
            _check_overflow(opn, flags, ev(a, env, memo), ev(b, env, memo), a[1], loc)
    return r


def _check_overflow(opn, flags, x, y, w, loc):
    M = mask(w)
    if "nsw" in flags:
        sx, sy = _signed(x, w), _signed(y, w)
        r = sx + sy if opn == "add" else sx - sy if opn == "sub" else sx * sy
        if not (-(1 << (w - 1)) <= r < (1 << (w - 1))):
            raise Poison("signed overflow in %s nsw i%d (%d, %d) at %s" % (opn, w, sx, sy, loc or "?"))
    if "nuw" in flags:
        r = x + y if opn == "add" else x - y if opn == "sub" else x * y
        if not (0 <= r <= M):
            raise Poison("unsigned wrap in %s nuw i%d (%d, %d) at %s" % (opn, w, x, y, loc or "?"))


def _ev(t, env, memo):
    o = t[0]
    w = t[1]
    M = mask(w)
    if o == "const":
        return t[2]
    if o == "arg":
        return (env["args"][t[2]] >> t[3]) & M
    if o == "mxcsr0":
        # the MXCSR the function finds: default masks, FTZ/DAZ clear, RC = the rounding mode of the evaluation
        return 0x1F80 | ({"RN": 0, "RD": 1, "RU": 2, "RZ": 3}[env.get("rm", "RN")] << 13)
    if o == "mem":
        f = env.get("mem")
        if f is None:
            raise Uneval("mem")
        base = ev(t[2], env, memo) if isinstance(t[2], tuple) else t[2]
        v = 0
        nbytes = (t[4] + w + 7) // 8
        for i in range(nbytes):
            v |= f(base + t[3] + i) << (8 * i)
        return (v >> t[4]) & M
    if o == "concat":
        v = 0
        pos = 0
        for p in t[2:]:
            v |= ev(p, env, memo) << pos
            pos += p[1]
        return v
    if o == "slice":
        return (ev(t[2], env, memo) >> t[3]) & M
    if o == "rep":
        return M if ev(t[2], env, memo) else 0
    if o == "not":
        return ~ev(t[2], env, memo) & M
    if o in ("and", "or") and w == 1:
        # boolean and/or come (also) from selects: an absorbing operand shields a poison operand
        absorbing = 0 if o == "and" else 1
        pending = None
        for x in t[2:]:
            try:
                if ev(x, env, memo) == absorbing:
                    return absorbing
            except Poison as p:
                pending = p
        if pending is not None:
            raise pending
        return 1 - absorbing
    if o in ("and", "or", "xor", "add", "mul"):
        vs = [ev(x, env, memo) for x in t[2:]]
        v = vs[0]
        for x in vs[1:]:
            if o == "and":
                v &= x
            elif o == "or":
                v |= x
            elif o == "xor":
                v ^= x
            elif o == "add":
                v += x
            else:
                v *= x
        return v & M
    if o == "sub":
        return (ev(t[2], env, memo) - ev(t[3], env, memo)) & M
    if o == "neg":
        return -ev(t[2], env, memo) & M
    if o == "icmp":
        return int(eval_icmp(t[2], ev(t[3], env, memo), ev(t[4], env, memo), t[3][1]))
    if o == "select":
        return ev(t[3], env, memo) if ev(t[2], env, memo) else ev(t[4], env, memo)
    if o in FP_OPS or o.startswith("fr:"):
        return _ev_fp(t, env, memo)
    if o == "call:llvm.fabs":
        return ev(t[2], env, memo) & (M >> 1)
    if o in ("satus", "satss"):
        x = _signed(ev(t[2], env, memo), t[2][1])
        if o == "satus":
            return max(0, min(x, M))
        return max(-(1 << (w - 1)), min(x, (1 << (w - 1)) - 1)) & M
    if o == "popsum":
        v = t[2]
        for b, m in popsum_items(t):
            v += m * ev(b, env, memo)
        return v & M
    if o == "fcmp":
        return int(eval_fcmp(t[2], ev(t[3], env, memo), ev(t[4], env, memo), t[3][1], env.get("daz", False)))
    if o in ("shl", "lshr", "ashr", "shlsat", "lshrsat", "ashrsat"):
        x = ev(t[2], env, memo)
        a = ev(t[3], env, memo)
        sat = o.endswith("sat")
        kind = o[:-3] if sat else o
        if a >= w:
            if not sat:
                raise Poison("shift amount %d >= width %d" % (a, w))
            if kind == "ashr":
                return M if x >> (w - 1) else 0
            return 0
        if kind == "shl":
            return (x << a) & M
        if kind == "lshr":
            return x >> a
        return (_signed(x, w) >> a) & M
    if o in ("fshl", "fshr"):
        a = ev(t[2], env, memo)
        b = ev(t[3], env, memo)
        c = ev(t[4], env, memo) % w
        cc = (a << w) | b
        if o == "fshl":
            return (cc >> (w - c)) & M if c else a
        return (cc >> c) & M
    if o in ("call:fmodf", "call:fmod"):
        import fpeval
        return fpeval.c_fmod(ev(t[2], env, memo), ev(t[3], env, memo), w)
    if o.startswith("call:"):
        n = o[5:]
        vs = [ev(x, env, memo) for x in t[2:] if isinstance(x, tuple)]
        if n == "llvm.ctpop":
            return bin(vs[0]).count("1")
        if n == "llvm.ctlz":
            if vs[0] == 0 and len(vs) > 1 and vs[1]:
                raise Poison("ctlz(0) with is_zero_undef")
            return _clz(vs[0], w)
        if n == "llvm.cttz":
            if vs[0] == 0 and len(vs) > 1 and vs[1]:
                raise Poison("cttz(0) with is_zero_undef")
            return _ctz(vs[0], w)
        if n == "llvm.bswap":
            return int.from_bytes(vs[0].to_bytes(w // 8, "little"), "big")
        if n == "llvm.bitreverse":
            return int(format(vs[0], "0%db" % w)[::-1], 2)
        if n == "llvm.abs":
            if len(vs) > 1 and vs[1] and vs[0] == 1 << (w - 1):
                raise Poison("abs(INT_MIN) with int_min_poison")
            return abs(_signed(vs[0], w)) & M
        if n == "llvm.umin":
            return min(vs[0], vs[1])
        if n == "llvm.umax":
            return max(vs[0], vs[1])
        if n == "llvm.smin":
            return min(_signed(vs[0], w), _signed(vs[1], w)) & M
        if n == "llvm.smax":
            return max(_signed(vs[0], w), _signed(vs[1], w)) & M
        if n == "llvm.uadd.sat":
            return min(vs[0] + vs[1], M)
        if n == "llvm.usub.sat":
            return max(vs[0] - vs[1], 0)
        if n == "llvm.sadd.sat":
            s = _signed(vs[0], w) + _signed(vs[1], w)
            return max(min(s, (1 << (w - 1)) - 1), -(1 << (w - 1))) & M
        if n == "llvm.ssub.sat":
            s = _signed(vs[0], w) - _signed(vs[1], w)
            return max(min(s, (1 << (w - 1)) - 1), -(1 << (w - 1))) & M
        raise Uneval(n)
    if o in ("x86.getexp", "x86.getmant", "x86.fixupimm", "x86.range"):
        import fpeval
        if o == "x86.getexp":
            return fpeval.x86_getexp(ev(t[2], env, memo), w)
        if o == "x86.getmant":
            return fpeval.x86_getmant(ev(t[2], env, memo), t[3], w)
        if o == "x86.fixupimm":
            return fpeval.x86_fixupimm(ev(t[2], env, memo), ev(t[3], env, memo), ev(t[4], env, memo), w)
        r = fpeval.x86_range(ev(t[2], env, memo), ev(t[3], env, memo), t[4], w)
        if r is None:
            raise Uneval("vrange abs variants")
        return r
    if o == "x86.permx":
        # VPERMB/VPERMI2B family, one result element: element (index mod entries) of the table
        tab = ev(t[2], env, memo)
        i = ev(t[3], env, memo) & (t[2][1] // w - 1)
        return (tab >> (i * w)) & M
    if o in ("x86.divq.q", "x86.divq.r"):
        hi, lo, y = ev(t[2], env, memo), ev(t[3], env, memo), ev(t[4], env, memo)
        if y == 0 or hi >= y:
            raise Poison("divq raises #DE (divide error): RDX=%#x RAX=%#x divisor=%#x (%s)" % (
                hi, lo, y, "zero divisor" if y == 0 else "quotient does not fit in 64 bits"))
        num = (hi << 64) | lo
        return num // y if o == "x86.divq.q" else num % y
    if o == "tabload":
        tab = ev(t[2], env, memo)
        i = (ev(t[3], env, memo) + t[4][2]) & ((1 << 64) - 1)
        if i * 8 + w > t[2][1]:
            raise Poison("out-of-bounds read of a constant table at byte index %d" % i)
        return (tab >> (i * 8)) & M
    if o == "x86.pshufb":
        # SDM PSHUFB, one result byte: control bit 7 set -> 0, else byte (control & 15) of the 128-bit block
        tab = ev(t[2], env, memo)
        c = ev(t[3], env, memo)
        if c & 0x80:
            return 0
        return (tab >> ((c & 15) * 8)) & 0xFF
    if o == "x86.fpclass":
        # SDM VFPCLASS: imm bit0 QNaN, 1 +0, 2 -0, 3 +inf, 4 -inf, 5 denormal, 6 negative finite, 7 SNaN
        v = ev(t[2], env, memo)
        imm = t[3]
        eb_ = t[2][1]
        mb_, xb_ = (23, 8) if eb_ == 32 else (52, 11)
        sg = v >> (eb_ - 1)
        e_ = (v >> mb_) & ((1 << xb_) - 1)
        m_ = v & ((1 << mb_) - 1)
        emax = (1 << xb_) - 1
        cats = 0
        if e_ == emax and m_:
            cats |= 0x01 if (m_ >> (mb_ - 1)) else 0x80
        if e_ == 0 and m_ == 0:
            cats |= 0x04 if sg else 0x02
        if e_ == emax and m_ == 0:
            cats |= 0x10 if sg else 0x08
        if e_ == 0 and m_:
            cats |= 0x20
        if sg and not (e_ == emax and m_) and not (e_ == 0 and m_ == 0) and not (e_ == emax and m_ == 0):
            cats |= 0x40        # negative finite (incl. negative denormals)
        return int(bool(cats & imm))
    if o.startswith("spec:c_"):
        import fpeval
        rm = env.get("rm", "RN")
        n = o[7:]
        a = ev(t[2], env, memo)
        sw = t[2][1]
        if n == "fmax":
            return fpeval.c_fmax(a, ev(t[3], env, memo), w, True)
        if n == "fmin":
            return fpeval.c_fmax(a, ev(t[3], env, memo), w, False)
        if n == "fdim":
            return fpeval.c_fdim(a, ev(t[3], env, memo), w, rm)
        if n == "frac":
            return fpeval.c_frac(a, w, rm)
        if n == "ilogb":
            return fpeval.c_ilogb(a, sw, w)
        if n == "logb":
            return fpeval.c_logb(a, w)
        if n == "frexp_m":
            return fpeval.c_frexp_m(a, w)
        if n == "frexp_e":
            return fpeval.c_frexp_e(a, sw, w)
        if n == "ldexp":
            return fpeval.c_ldexp(a, ev(t[3], env, memo), w, t[3][1], rm)
        raise Uneval(o)
    if o == "spec:bit_floor":
        x = ev(t[2], env, memo)
        return (1 << (x.bit_length() - 1)) if x else 0
    if o == "spec:bit_ceil":
        x = ev(t[2], env, memo)
        if x <= 1:
            return 1
        return (1 << (x - 1).bit_length()) & M
    if o == "udiv" or o == "urem" or o == "sdiv" or o == "srem":
        a = ev(t[2], env, memo)
        b = ev(t[3], env, memo)
        if b == 0:
            raise Uneval("div by zero")
        if o[0] == "s":
            a, b = _signed(a, w), _signed(b, w)
            if a == -(1 << (w - 1)) and b == -1:
                raise Uneval("sdiv overflow")
            q = abs(a) // abs(b)
            if (a < 0) != (b < 0):
                q = -q
            r = a - q * b
            return (q if o == "sdiv" else r) & M
        return (a // b if o == "udiv" else a % b) & M
    raise Uneval(o)
