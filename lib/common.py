"""Shared infrastructure: configurations (E0), compile helpers, cache,
evidence, known findings, verdict bookkeeping.

Nothing here executes code from /repo.  Compilers are used as front ends /
normalisers only (-fsyntax-only, -E, -S -emit-llvm).
"""
import concurrent.futures as cf
import hashlib
import json
import os
import re
import shutil
import subprocess
import sys
import time

VERIF = os.path.dirname(os.path.dirname(os.path.abspath(__file__)))
REPO = os.environ.get("AVEL_REPO", "/repo")
INC = os.path.join(REPO, "include")
CACHE = os.path.join(VERIF, ".cache")
BUILD = os.path.join(VERIF, "build")
# evidence and replay files describe /repo itself; a run pointed at another tree (self-tests on scratch
# worktrees, AVEL_REPO=...) writes them under build/ so that it can never overwrite committed evidence
_SCRATCH = os.path.realpath(REPO) != os.path.realpath("/repo")
EVID = os.path.join(VERIF, "build", "scratch_evidence") if _SCRATCH else os.path.join(VERIF, "evidence")
REPLAY = os.path.join(VERIF, "build", "scratch_replay") if _SCRATCH else os.path.join(VERIF, "replay")
NCPU = int(os.environ.get("VERIF_JOBS", os.cpu_count() or 4))

CLANGXX = "clang++"
GXX = "g++"

# macro -> compiler flag.  A macro without an entry needs no flag.
FLAG = {
    "AVEL_POPCNT": "-mpopcnt", "AVEL_LZCNT": "-mlzcnt", "AVEL_BMI": "-mbmi",
    "AVEL_BMI2": "-mbmi2", "AVEL_SSE": "-msse", "AVEL_SSE2": "-msse2",
    "AVEL_SSE3": "-msse3", "AVEL_SSSE3": "-mssse3", "AVEL_SSE4_1": "-msse4.1",
    "AVEL_SSE4_2": "-msse4.2", "AVEL_AVX": "-mavx", "AVEL_AVX2": "-mavx2",
    "AVEL_FMA": "-mfma", "AVEL_AVX512F": "-mavx512f",
    "AVEL_AVX512VL": "-mavx512vl", "AVEL_AVX512BW": "-mavx512bw",
    "AVEL_AVX512DQ": "-mavx512dq", "AVEL_AVX512CD": "-mavx512cd",
    "AVEL_AVX512VPOPCNTDQ": "-mavx512vpopcntdq",
    "AVEL_AVX512BITALG": "-mavx512bitalg", "AVEL_AVX512VBMI": "-mavx512vbmi",
    "AVEL_AVX512VBMI2": "-mavx512vbmi2", "AVEL_GFNI": "-mgfni",
    "AVEL_X86": None, "AVEL_PREFETCH": None,
}
# x86_64 baseline always has SSE/SSE2; builds "without SSE" in the AVEL sense
# are builds where AVEL_SSE2 is not defined, the -m flags need not be removed.

SCALAR_ATOMS = ["AVEL_X86", "AVEL_POPCNT", "AVEL_LZCNT", "AVEL_BMI", "AVEL_BMI2"]
LADDER = ["AVEL_SSE2", "AVEL_SSE3", "AVEL_SSSE3", "AVEL_SSE4_1", "AVEL_SSE4_2",
          "AVEL_AVX", "AVEL_AVX2"]
AVX512_SUB = ["AVEL_AVX512VL", "AVEL_AVX512BW", "AVEL_AVX512DQ", "AVEL_AVX512CD",
              "AVEL_AVX512VPOPCNTDQ", "AVEL_AVX512BITALG", "AVEL_AVX512VBMI",
              "AVEL_AVX512VBMI2", "AVEL_GFNI"]
# atoms that appear in #if conditions but belong to targets this image cannot
# analyse (DESIGN section 8)
FOREIGN_ATOMS = {"AVEL_NEON", "AVEL_AARCH64", "AVEL_AARCH32", "AVEL_ARM",
                 "AVEL_SVE", "AVEL_SVE2", "AVEL_ARMV9", "AVEL_MSVC", "AVEL_ICPX",
                 "AVEL_AVX10_1", "AVEL_AVX10_2", "AVEL_GCC", "AVEL_CLANG"}


class Broken(Exception):
    """Analysis broken (exit 2): anchor vanished, tool failed, floor not met."""


def sh(cmd, **kw):
    return subprocess.run(cmd, stdout=subprocess.PIPE, stderr=subprocess.PIPE,
                          universal_newlines=True, **kw)


_repo_hash = None


def repo_hash():
    """Content hash of everything the checks read from /repo."""
    global _repo_hash
    if _repo_hash is None:
        h = hashlib.sha256()
        for root in ("include", "docs"):
            for dp, dn, fn in sorted(os.walk(os.path.join(REPO, root))):
                dn.sort()
                for f in sorted(fn):
                    p = os.path.join(dp, f)
                    h.update(os.path.relpath(p, REPO).encode())
                    with open(p, "rb") as fh:
                        h.update(fh.read())
        _repo_hash = h.hexdigest()
    return _repo_hash


_tool_hash = None


def tool_hash():
    """Hash of the framework's own sources, so a framework edit invalidates
    cached results."""
    global _tool_hash
    if _tool_hash is None:
        h = hashlib.sha256()
        for sub in ("lib", "tools", "spec", "bin"):
            d = os.path.join(VERIF, sub)
            if not os.path.isdir(d):
                continue
            for dp, dn, fn in sorted(os.walk(d)):
                dn.sort()
                for f in sorted(fn):
                    if f.endswith((".pyc", ".so", ".o")):
                        continue
                    with open(os.path.join(dp, f), "rb") as fh:
                        h.update(f.encode())
                        h.update(fh.read())
        _tool_hash = h.hexdigest()
    return _tool_hash


def cache_path(kind, *key):
    """Directory under .cache keyed by repo content + framework + key."""
    h = hashlib.sha256()
    h.update(repo_hash().encode())
    h.update(tool_hash().encode())
    for k in key:
        h.update(b"\0")
        h.update(str(k).encode())
    d = os.path.join(CACHE, kind, h.hexdigest()[:24])
    return d


def cache_prune(max_gb=12.0):
    """Keep the cache bounded: remove oldest entries beyond max_gb."""
    if not os.path.isdir(CACHE):
        return
    ents = []
    for kind in os.listdir(CACHE):
        kd = os.path.join(CACHE, kind)
        if not os.path.isdir(kd):
            continue
        for e in os.listdir(kd):
            p = os.path.join(kd, e)
            sz = 0
            for dp, dn, fn in os.walk(p):
                for f in fn:
                    try:
                        sz += os.path.getsize(os.path.join(dp, f))
                    except OSError:
                        pass
            try:
                ents.append((os.path.getmtime(p), sz, p))
            except OSError:
                pass            # removed meanwhile by a check running in parallel
    ents.sort(reverse=True)
    tot = 0
    now = time.time()
    for mt, sz, p in ents:
        tot += sz
        # never remove an entry younger than two hours: a check running in parallel may be using it
        if tot > max_gb * (1 << 30) and now - mt > 7200:
            shutil.rmtree(p, ignore_errors=True)


class Config:
    def __init__(self, name, named):
        self.name = name
        self.named = list(named)
        self._closure = None

    @property
    def closure(self):
        if self._closure is None:
            self._closure = macro_closure(self.named)
        return self._closure

    @property
    def flags(self):
        fl = []
        for m in sorted(self.closure):
            f = FLAG.get(m)
            if f and f not in fl:
                fl.append(f)
        return fl

    @property
    def defines(self):
        return ["-D%s" % m for m in self.named]

    def has(self, m):
        return m in self.closure

    def __repr__(self):
        return "Config(%s)" % self.name


_closure_cache = {}


def macro_closure(named):
    """AVEL_* feature macros defined after including Capabilities.hpp with the
    named macros: derived from the tree by the preprocessor, not hard-coded."""
    key = tuple(sorted(named))
    if key in _closure_cache:
        return _closure_cache[key]
    cmd = [CLANGXX, "-std=c++11", "-E", "-dM", "-x", "c++", "-I", INC,
           "-include", "avel/impl/Capabilities.hpp", "/dev/null"]
    cmd += ["-D%s" % m for m in named]
    # all -m flags on, so that no header is missing; -E does not evaluate
    # static_assert
    r = sh(cmd)
    if r.returncode != 0:
        raise Broken("preprocessing Capabilities.hpp failed for %s: %s" %
                     (named, r.stderr[-400:]))
    out = set()
    for line in r.stdout.splitlines():
        m = re.match(r"#define (AVEL_[A-Z0-9_]+)\b", line)
        if m and (m.group(1) in FLAG or m.group(1) in FOREIGN_ATOMS):
            out.add(m.group(1))
    out -= {"AVEL_CLANG", "AVEL_GCC"}
    _closure_cache[key] = out
    return out


def condition_atoms():
    """Every AVEL_* identifier tested by defined() in a #if/#elif/#ifdef in
    /repo/include."""
    atoms = {}
    for dp, dn, fn in os.walk(INC):
        for f in fn:
            p = os.path.join(dp, f)
            with open(p, errors="replace") as fh:
                for i, line in enumerate(fh, 1):
                    s = line.strip()
                    if not s.startswith("#"):
                        continue
                    s2 = s[1:].strip()
                    if s2.startswith(("if", "elif")):
                        for a in re.findall(r"\bAVEL_[A-Z0-9_]+\b", s2):
                            if a.endswith("_HPP"):
                                continue
                            atoms.setdefault(a, []).append(
                                "%s:%d" % (os.path.relpath(p, REPO), i))
    return atoms


def all_configs(tier="thorough"):
    """Macro sets per DESIGN section 1."""
    C = []

    def add(name, named):
        C.append(Config(name, named))

    add("none", [])
    add("scalar_all", SCALAR_ATOMS)
    add("SSE2", ["AVEL_SSE2"])
    add("SSE4_1", ["AVEL_SSE4_1"])
    add("AVX2", ["AVEL_AVX2"])
    add("AVX512F", ["AVEL_AVX512F"])
    add("AVX512VL_BW", ["AVEL_AVX512VL", "AVEL_AVX512BW"])
    add("everything", ["AVEL_AVX512F"] + AVX512_SUB + SCALAR_ATOMS[1:])
    if tier == "quick":
        return C
    for a in SCALAR_ATOMS:
        add(a[5:], [a])
    for a in ["AVEL_SSE3", "AVEL_SSSE3", "AVEL_SSE4_2", "AVEL_AVX"]:
        add(a[5:], [a])
    add("AVX2_FMA", ["AVEL_AVX2", "AVEL_FMA"])
    add("AVX2_FMA_scalar", ["AVEL_AVX2", "AVEL_FMA"] + SCALAR_ATOMS[1:])
    for a in AVX512_SUB:
        add("F_" + a[5:].replace("AVX512", ""), [a])
    for a in AVX512_SUB:
        if a not in ("AVEL_AVX512VL",):
            add("VL_" + a[5:].replace("AVX512", ""), ["AVEL_AVX512VL", a])
    for a in AVX512_SUB:
        if a not in ("AVEL_AVX512VL", "AVEL_AVX512BW"):
            add("BW_" + a[5:].replace("AVX512", ""), ["AVEL_AVX512BW", a])
            add("VL_BW_" + a[5:].replace("AVX512", ""),
                ["AVEL_AVX512VL", "AVEL_AVX512BW", a])
    # de-duplicate by closure
    seen = {}
    out = []
    for c in C:
        k = tuple(sorted(c.closure))
        if k in seen:
            continue
        seen[k] = c
        out.append(c)
    return out


def config_by_name(name):
    for c in all_configs("thorough"):
        if c.name == name:
            return c
    raise KeyError(name)


def pmap(fn, items, workers=None):
    """Run fn over items in a thread pool (the work is subprocesses)."""
    workers = workers or NCPU
    with cf.ThreadPoolExecutor(max_workers=workers) as ex:
        return list(ex.map(fn, items))


def procmap(fn, items, workers=None):
    workers = workers or NCPU
    if workers <= 1 or len(items) <= 1:
        return [fn(i) for i in items]
    with cf.ProcessPoolExecutor(max_workers=workers) as ex:
        return list(ex.map(fn, items))


# --------------------------------------------------------------------------
# known findings

def load_known():
    p = os.path.join(VERIF, "known_findings.json")
    if not os.path.exists(p):
        return {"findings": [], "fixed": []}
    with open(p) as fh:
        return json.load(fh)


def match_known(prop, key, known=None):
    """A finding entry matches a refutation key when every field it names is a
    regex that fully matches the key's field."""
    known = known or load_known()
    if str(key.get("clause", "")).endswith("+outside-known-finding"):
        return None     # found by the re-search that excludes every listed finding's inputs
    for f in known.get("findings", []):
        if f.get("property") != prop:
            continue
        ok = True
        for fld, pat in f.get("match", {}).items():
            v = str(key.get(fld, ""))
            if not re.fullmatch(pat, v):
                ok = False
                break
        if ok:
            return f
    return None


# --------------------------------------------------------------------------
# results

HOLDS, REFUTED, UNDECIDED, MISSING = "HOLDS", "REFUTED", "UNDECIDED", "MISSING"


class Result:
    """Verdict bookkeeping for one property run."""

    def __init__(self, prop, tier):
        self.prop = prop
        self.tier = tier
        self.t0 = time.time()
        self.inst = []          # (key dict, verdict, detail)
        self.broken = []        # strings
        self.notes = []
        self.extra = {}
        self.assumptions = []
        self.trusted = []

    def add(self, key, verdict, detail=None, rule=None, witness=None):
        self.inst.append({"key": key, "verdict": verdict, "detail": detail,
                          "rule": rule, "witness": witness})

    def brk(self, msg):
        self.broken.append(msg)

    def counts(self):
        c = {HOLDS: 0, REFUTED: 0, UNDECIDED: 0, MISSING: 0}
        for i in self.inst:
            c[i["verdict"]] = c.get(i["verdict"], 0) + 1
        return c


def keystr(key):
    return " ".join("%s=%s" % (k, key[k]) for k in sorted(key))


PARTIAL = [False]      # set by bin/check.py for filtered debug runs


def load_floor(prop):
    p = os.path.join(VERIF, "baseline", "%s.floor.json" % prop)
    if not os.path.exists(p):
        return None
    with open(p) as fh:
        return json.load(fh)


def finish(res, level="other", explanation="", checker_cmd=None,
           write_floor=False, sample_n=12):
    """Apply known findings + floors, write evidence, print the verdict lines,
    return the exit code."""
    os.makedirs(EVID, exist_ok=True)
    os.makedirs(REPLAY, exist_ok=True)
    known = load_known()
    tier = res.tier
    viol = []
    kf = {}
    for i in res.inst:
        if i["verdict"] == REFUTED:
            f = match_known(res.prop, dict(i["key"], detail=i.get("detail") or "",
                                           rule=i.get("rule") or "",
                                           witness=json.dumps(i.get("witness"), sort_keys=True)), known)
            if f:
                kf.setdefault(f["id"], (f, []))[1].append(i)
            else:
                viol.append(i)
    # floors: committed set of (hashed) instance keys that were HOLDS on the reference tree
    def hk(k):
        return hashlib.sha1(k.encode()).hexdigest()[:10]
    holds_keys = sorted(hk(keystr(i["key"])) for i in res.inst if i["verdict"] == HOLDS)
    floor = load_floor(res.prop)
    if write_floor:
        os.makedirs(os.path.join(VERIF, "baseline"), exist_ok=True)
        fl = floor or {}
        fl[tier] = holds_keys
        with open(os.path.join(VERIF, "baseline", "%s.floor.json" % res.prop), "w") as fh:
            json.dump(fl, fh, separators=(",", ":"), sort_keys=True)
        floor = fl
    if PARTIAL[0] and not write_floor:
        res.notes.append("partial run (--configs/--types debug filter): the committed floor is not compared")
    elif floor is not None and tier in floor:
        fset = set(floor[tier])
        have = set(holds_keys)
        now = {}
        for i in res.inst:
            now[hk(keystr(i["key"]))] = i
        lost = [h for h in fset if h not in have and not (h in now and now[h]["verdict"] == REFUTED)]
        if lost:
            named = [keystr(now[h]["key"]) + " (now %s: %s)" % (now[h]["verdict"], (now[h].get("detail") or "")[:80])
                     for h in lost if h in now]
            res.brk("%d instance(s) that were HOLDS in the committed floor are no longer decided (%d of them no longer "
                    "generated), e.g. %s" % (len(lost), len(lost) - len(named), "; ".join(named[:4])))
    elif floor is None and not write_floor:
        res.notes.append("no committed floor for this property yet")
    elif floor is not None and tier not in floor:
        res.notes.append("no committed floor for this tier")
    c = res.counts()
    decided = c[HOLDS] + c[REFUTED]
    if decided == 0 and not res.broken:
        res.brk("no instance was decided (vacuous run)")
    code = 0
    lines = []
    for fid, (f, insts) in sorted(kf.items()):
        lines.append("KNOWN-FINDING: property=%s %s [%d instance(s), e.g. %s]" % (
            res.prop, f["what"], len(insts), keystr(insts[0]["key"])))
    for n, v in enumerate(viol):
        rp = os.path.join(REPLAY, "%s_%s_%03d.json" % (res.prop, tier, n))
        with open(rp, "w") as fh:
            json.dump({"property": res.prop, "instance": v["key"],
                       "rule": v.get("rule"), "detail": v.get("detail"),
                       "distinguishing_input": v.get("witness")}, fh, indent=1)
        if n < 40:
            lines.append("VIOLATION property=%s replay=%s" % (res.prop, rp))
            lines.append("  instance: %s" % keystr(v["key"]))
            lines.append("  rule: %s" % v.get("rule"))
            lines.append("  found: %s" % v.get("detail"))
            lines.append("  distinguishing input: %s" % v.get("witness"))
    if len(viol) > 40:
        lines.append("  ... %d more violations (see replay/)" % (len(viol) - 40))
    if viol:
        code = 1
    if res.broken:
        for b in res.broken:
            lines.append("ANALYSIS-BROKEN property=%s %s" % (res.prop, b))
        if code == 0:
            code = 2
    und = [i for i in res.inst if i["verdict"] == UNDECIDED]
    samples = []
    seen_rules = set()
    for i in res.inst:
        if i["verdict"] == HOLDS and (i.get("rule"), i["key"].get("op")) not in seen_rules:
            seen_rules.add((i.get("rule"), i["key"].get("op")))
            samples.append({"instance": keystr(i["key"]), "verdict": HOLDS,
                            "rule": i.get("rule"), "form": i.get("detail")})
        if len(samples) >= sample_n:
            break
    for i in (viol + [x for f, xs in kf.values() for x in xs])[:6]:
        samples.append({"instance": keystr(i["key"]), "verdict": REFUTED,
                        "rule": i.get("rule"), "form": i.get("detail"),
                        "distinguishing_input": i.get("witness")})
    for i in und[:4]:
        samples.append({"instance": keystr(i["key"]), "verdict": UNDECIDED,
                        "why": i.get("detail")})
    und_names = {}
    for i in und:
        k = "%s/%s" % (i["key"].get("op", "?"), i["key"].get("type", "?"))
        und_names[k] = und_names.get(k, 0) + 1
    obligations = len(res.inst)
    cov = {
        "explanation": explanation,
        "obligations": obligations,
        "discharged": c[HOLDS],
        "refuted": c[REFUTED],
        "refuted_known_findings": sum(len(x) for f, x in kf.values()),
        "undecided": c[UNDECIDED],
        "missing": c[MISSING],
        "evaluations": obligations,
        "distinct_nontrivial": len(set(keystr(i["key"]) for i in res.inst
                                       if i["verdict"] in (HOLDS, REFUTED))),
        "rule": "one obligation per (configuration, type, operation, parameter) "
                "instance; non-trivial = decided (HOLDS/REFUTED) by a rule, "
                "UNDECIDED and MISSING are not counted",
        "samples": samples or [{"note": "no samples"}],
        "checker_cmd": checker_cmd or ("python3 bin/check.py %s --tier %s" % (res.prop, tier)),
        "trusted_base": res.trusted,
        "undecided_by_op_type": dict(sorted(und_names.items())[:400]),
        "analysis_broken": res.broken,
        "notes": res.notes,
        "exhaustive": False,
    }
    cov.update(res.extra)
    ev = {
        "property_id": res.prop, "tier": tier,
        "seed": int(os.environ.get("VERIF_SEED", "0") or 0),
        "level": level, "coverage": cov, "assumptions": res.assumptions,
        "wall_s": round(time.time() - res.t0, 2), "violations": len(viol),
    }
    if level == "proof" and (c[HOLDS] != obligations):
        ev["level"] = "other"
    with open(os.path.join(EVID, "%s.json" % res.prop), "w") as fh:
        json.dump(ev, fh, indent=1, sort_keys=True)
    try:
        os.makedirs(BUILD, exist_ok=True)
        with open(os.path.join(BUILD, "last_%s_%s.json" % (res.prop, tier)), "w") as fh:
            json.dump(res.inst, fh)
    except OSError:
        pass
    print("property=%s tier=%s instances=%d HOLDS=%d REFUTED=%d (known=%d) "
          "UNDECIDED=%d MISSING=%d wall=%.1fs" % (
              res.prop, tier, obligations, c[HOLDS], c[REFUTED],
              cov["refuted_known_findings"], c[UNDECIDED], c[MISSING],
              time.time() - res.t0))
    for l in lines:
        print(l)
    if code == 0:
        print("OK property=%s" % res.prop)
    sys.stdout.flush()
    return code
