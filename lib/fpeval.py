"""Exact IEEE-754 binary32/binary64 arithmetic on bit patterns with an explicit
rounding mode, on rationals.  Used only to evaluate *closed forms* when looking
for a point where two of them differ (witness for a REFUTED verdict)."""
from fractions import Fraction
from math import isqrt

# 80: the x87 extended format's VALUE SET (p = 64, emin = -16382, emax = 16383) in a private interchange-style
# encoding (sign, 16 exponent bits of which the top code is inf/NaN, 63 fraction bits, hidden leading bit).
# An x86_fp80 value is only ever an intermediate between fpext and fptrunc in the closed forms; the x87 bit
# layout itself (explicit integer bit) is converted on entry by from_x87 and never observed otherwise
# (irterm refuses bitcasts of x86_fp80).
FMT = {32: (24, -126, 127), 64: (53, -1022, 1023), 80: (64, -16382, 16383)}
MODES = ("RN", "RU", "RD", "RZ")


def from_x87(v):
    """x87 80-bit pattern -> the private 80-bit encoding; None for pseudo-denormals / unnormals"""
    s, e, i, f = v >> 79, (v >> 64) & 0x7fff, (v >> 63) & 1, v & ((1 << 63) - 1)
    if e == 0x7fff:
        if not i:
            return None
        return (s << 79) | (0xffff << 63) | f
    if e == 0:
        if i:
            return None
        return (s << 79) | f
    if not i:
        return None
    return (s << 79) | (e << 63) | f


def parts(v, w):
    p, emin, emax = FMT[w]
    mb = p - 1
    xb = w - p
    s = v >> (w - 1)
    e = (v >> mb) & ((1 << xb) - 1)
    m = v & ((1 << mb) - 1)
    return s, e, m, mb, xb


def decode(v, w):
    """('nan',) | ('inf', s) | ('zero', s) | ('num', Fraction)"""
    s, e, m, mb, xb = parts(v, w)
    p, emin, emax = FMT[w]
    if e == (1 << xb) - 1:
        return ("nan",) if m else ("inf", s)
    if e == 0:
        if m == 0:
            return ("zero", s)
        ex = emin - mb
    else:
        m |= 1 << mb
        ex = e - emax - mb
    if s:
        m = -m
    if ex >= 0:
        return ("num", Fraction(m << ex))
    # strip common powers of two by hand: the constructor's gcd is the expensive part
    tz = (m & -m).bit_length() - 1
    k = min(tz, -ex)
    return ("num", Fraction(m >> k, 1 << (-ex - k), _normalize=False))


def qnan(w):
    p = FMT[w][0]
    return ((1 << (w - p)) - 1) << (p - 1) | (1 << (p - 2))


def inf(s, w):
    p = FMT[w][0]
    return (s << (w - 1)) | (((1 << (w - p)) - 1) << (p - 1))


def zero(s, w):
    return s << (w - 1)


def isnan(v, w):
    s, e, m, mb, xb = parts(v, w)
    return e == (1 << xb) - 1 and m != 0


def _round_int(n, mode, neg):
    """round the non-negative rational n to an integer in the given mode (neg: sign of the value)"""
    f = n.numerator // n.denominator
    rem = n - f
    if rem == 0:
        return f
    if mode == "RZ":
        return f
    if mode == "RU":
        return f if neg else f + 1
    if mode == "RD":
        return f + 1 if neg else f
    # nearest even
    if rem > Fraction(1, 2) or (rem == Fraction(1, 2) and (f & 1)):
        return f + 1
    return f


def encode(q, w, mode="RN", zero_sign=0):
    """round the exact rational q to the format (integer arithmetic on numerator / denominator)"""
    p, emin, emax = FMT[w]
    mb = p - 1
    N, D = q.numerator, q.denominator
    if N == 0:
        return zero(zero_sign, w)
    neg = N < 0
    if neg:
        N = -N
    # exponent e with 2^e <= N/D < 2^(e+1)
    e = N.bit_length() - D.bit_length()
    if e >= 0:
        if (D << e) > N:
            e -= 1
    else:
        if D > (N << -e):
            e -= 1
    ee = e if e > emin else emin
    sh = ee - mb                     # quantum 2^sh ; n = round(N / (D * 2^sh))
    if sh >= 0:
        num, den = N, D << sh
    else:
        num, den = N << -sh, D
    n = num // den
    rem = num - n * den
    if rem:
        if mode == "RZ":
            pass
        elif mode == "RU":
            if not neg:
                n += 1
        elif mode == "RD":
            if neg:
                n += 1
        else:
            r2 = rem << 1
            if r2 > den or (r2 == den and (n & 1)):
                n += 1
    if n >= (1 << p):
        n >>= 1
        ee += 1
    sg = (1 if neg else 0) << (w - 1)
    if n == 0:
        return sg
    if n < (1 << mb):
        return sg | n               # subnormal
    if ee > emax:
        to_inf = mode == "RN" or (mode == "RU" and not neg) or (mode == "RD" and neg)
        if to_inf:
            return inf(1 if neg else 0, w)
        return sg | (((1 << (w - p)) - 2) << mb) | ((1 << mb) - 1)
    return sg | ((ee + emax) << mb) | (n - (1 << mb))


def _zsum(sa, sb, mode):
    if sa == sb:
        return sa
    return 1 if mode == "RD" else 0


def add(a, b, w, mode="RN", sub=False):
    x, y = decode(a, w), decode(b, w)
    if sub:
        if y[0] in ("inf", "zero"):
            y = (y[0], 1 - y[1])
        elif y[0] == "num":
            y = ("num", -y[1])
    if x[0] == "nan" or y[0] == "nan":
        return qnan(w)
    if x[0] == "inf" or y[0] == "inf":
        if x[0] == "inf" and y[0] == "inf":
            return inf(x[1], w) if x[1] == y[1] else qnan(w)
        return inf(x[1], w) if x[0] == "inf" else inf(y[1], w)
    if x[0] == "zero" and y[0] == "zero":
        return zero(_zsum(x[1], y[1], mode), w)
    qx = x[1] if x[0] == "num" else Fraction(0)
    qy = y[1] if y[0] == "num" else Fraction(0)
    r = qx + qy
    if r == 0:
        return zero(1 if mode == "RD" else 0, w)
    return encode(r, w, mode)


def mul(a, b, w, mode="RN"):
    x, y = decode(a, w), decode(b, w)
    if x[0] == "nan" or y[0] == "nan":
        return qnan(w)
    sx = x[1] if x[0] in ("inf", "zero") else int(x[1] < 0)
    sy = y[1] if y[0] in ("inf", "zero") else int(y[1] < 0)
    s = sx ^ sy
    if x[0] == "inf" or y[0] == "inf":
        if x[0] == "zero" or y[0] == "zero":
            return qnan(w)
        return inf(s, w)
    if x[0] == "zero" or y[0] == "zero":
        return zero(s, w)
    return encode(x[1] * y[1], w, mode)


def div(a, b, w, mode="RN"):
    x, y = decode(a, w), decode(b, w)
    if x[0] == "nan" or y[0] == "nan":
        return qnan(w)
    sx = x[1] if x[0] in ("inf", "zero") else int(x[1] < 0)
    sy = y[1] if y[0] in ("inf", "zero") else int(y[1] < 0)
    s = sx ^ sy
    if x[0] == "inf":
        return qnan(w) if y[0] == "inf" else inf(s, w)
    if y[0] == "inf":
        return zero(s, w)
    if y[0] == "zero":
        return qnan(w) if x[0] == "zero" else inf(s, w)
    if x[0] == "zero":
        return zero(s, w)
    return encode(x[1] / y[1], w, mode)


def sqrt(a, w, mode="RN"):
    x = decode(a, w)
    if x[0] == "nan":
        return qnan(w)
    if x[0] == "zero":
        return a
    if x[0] == "inf":
        return a if x[1] == 0 else qnan(w)
    if x[1] < 0:
        return qnan(w)
    q = x[1]
    # normalise by an even power of two so that qn is in [1, 4), take an integer root with k extra bits
    e = q.numerator.bit_length() - q.denominator.bit_length()
    e2 = e - (e % 2)
    qn = q / (Fraction(2) ** e2)
    while qn >= 4:
        qn /= 4
        e2 += 2
    while qn < 1:
        qn *= 4
        e2 -= 2
    k = FMT[w][0] + 12
    num = qn.numerator << (2 * k)
    n = num // qn.denominator
    r = isqrt(n)
    exact = (r * r == n) and (num % qn.denominator == 0)
    val = Fraction(r, 1 << k)
    if not exact:
        val += Fraction(1, 1 << (k + 4))      # sticky: the true root lies strictly above r / 2^k
    val *= Fraction(2) ** (e2 // 2)
    return encode(val, w, mode)


def fma(a, b, c, w, mode="RN"):
    x, y, z = decode(a, w), decode(b, w), decode(c, w)
    if "nan" in (x[0], y[0], z[0]) or "inf" in (x[0], y[0], z[0]):
        return add(mul(a, b, w, mode), c, w, mode)      # specials: no double rounding issue
    qx = x[1] if x[0] == "num" else Fraction(0)
    qy = y[1] if y[0] == "num" else Fraction(0)
    qz = z[1] if z[0] == "num" else Fraction(0)
    r = qx * qy + qz
    if r == 0:
        sp = (x[1] if x[0] == "zero" else int(qx < 0)) ^ (y[1] if y[0] == "zero" else int(qy < 0))
        sz = z[1] if z[0] == "zero" else int(qz < 0)
        if qx * qy == 0 and z[0] == "zero":
            return zero(_zsum(sp, sz, mode), w)
        return zero(1 if mode == "RD" else 0, w)
    return encode(r, w, mode)


def to_integral(a, w, how, mode="RN"):
    """how: trunc floor ceil round(half away) roundeven rint(current mode)"""
    x = decode(a, w)
    if x[0] in ("nan",):
        return qnan(w)
    if x[0] in ("inf", "zero"):
        return a
    q = x[1]
    neg = q < 0
    aq = -q if neg else q
    f = aq.numerator // aq.denominator
    rem = aq - f
    if how == "rint":
        how = {"RN": "roundeven", "RU": "ceil", "RD": "floor", "RZ": "trunc"}[mode]
    if how == "trunc":
        n = f
    elif how == "floor":
        n = f + (1 if (neg and rem) else 0)
    elif how == "ceil":
        n = f + (1 if (not neg and rem) else 0)
    elif how == "round":
        n = f + (1 if rem >= Fraction(1, 2) else 0)
    elif how == "roundeven":
        n = f + (1 if (rem > Fraction(1, 2) or (rem == Fraction(1, 2) and (f & 1))) else 0)
    else:
        raise ValueError(how)
    if n == 0:
        return zero(1 if neg else 0, w)
    return encode(Fraction(-n if neg else n), w, "RZ")


def to_int(a, w, ow, signed, how, mode="RN", x86=True):
    """float -> integer of ow bits.  x86 semantics: NaN / out of range give the integer indefinite
    (0x80..0 for signed, all ones for unsigned AVX-512 forms)."""
    x = decode(a, w)
    indef = (1 << (ow - 1)) if signed else (1 << ow) - 1
    if x[0] in ("nan", "inf"):
        return indef
    if x[0] == "zero":
        return 0
    r = decode(to_integral(a, w, how, mode), w)
    n = 0 if r[0] == "zero" else int(r[1])
    if signed:
        if not (-(1 << (ow - 1)) <= n < (1 << (ow - 1))):
            return indef
    else:
        if not (0 <= n < (1 << ow)):
            return indef
    return n & ((1 << ow) - 1)


def from_int(v, iw, signed, w, mode="RN"):
    n = v - (1 << iw) if (signed and v >> (iw - 1)) else v
    if n == 0:
        return zero(0, w)
    return encode(Fraction(n), w, mode)


def convert(a, w, ow, mode="RN"):
    x = decode(a, w)
    if x[0] == "nan":
        return qnan(ow)
    if x[0] == "inf":
        return inf(x[1], ow)
    if x[0] == "zero":
        return zero(x[1], ow)
    return encode(x[1], ow, mode)


# ---------------------------------------------------------------------------
# <cmath> reference functions on bit patterns (exact), for the C12 specifications

def _sign(v, w):
    return v >> (w - 1)


def c_fmax(a, b, w, larger=True):
    x, y = decode(a, w), decode(b, w)
    if x[0] == "nan":
        return b
    if y[0] == "nan":
        return a
    def val(d):
        if d[0] == "inf":
            return Fraction(10) ** 6000 * (-1 if d[1] else 1)
        if d[0] == "zero":
            return Fraction(0)
        return d[1]
    vx, vy = val(x), val(y)
    if vx == vy:
        return a
    if larger:
        return a if vx > vy else b
    return a if vx < vy else b


def c_fdim(a, b, w, mode="RN"):
    x, y = decode(a, w), decode(b, w)
    if x[0] == "nan" or y[0] == "nan":
        return qnan(w)
    d = add(a, b, w, mode, sub=True)
    dd = decode(d, w)
    if dd[0] == "nan":
        return zero(0, w)          # inf - inf with x == y: x > y is false
    if dd[0] == "zero" or (dd[0] == "inf" and dd[1]) or (dd[0] == "num" and dd[1] < 0):
        return zero(0, w)
    return d


def c_fmod(a, b, w):
    """C fmod: x - n*y with n = trunc(x/y), exact; the result has the sign of x (also a zero result);
    NaN for NaN operands, infinite x or zero y; x itself for finite x and infinite y"""
    x, y = decode(a, w), decode(b, w)
    if x[0] == "nan" or y[0] == "nan" or x[0] == "inf" or y[0] == "zero":
        return qnan(w)
    if y[0] == "inf" or x[0] == "zero":
        return a
    qx, qy = x[1], abs(y[1])
    neg = qx < 0
    ax = -qx if neg else qx
    n = (ax / qy).numerator // (ax / qy).denominator
    r = ax - n * qy
    if r == 0:
        return zero(1 if neg else 0, w)
    return encode(-r if neg else r, w, "RZ")


def c_frac(a, w, mode="RN"):
    x = decode(a, w)
    if x[0] == "nan":
        return qnan(w)
    if x[0] == "inf":
        return qnan(w)
    if x[0] == "zero":
        return a
    return add(a, to_integral(a, w, "trunc"), w, mode, sub=True)


def _exponent(q):
    """floor(log2 |q|) for a non-zero rational"""
    a = abs(q)
    e = a.numerator.bit_length() - a.denominator.bit_length()
    if Fraction(2) ** e > a:
        e -= 1
    elif Fraction(2) ** (e + 1) <= a:
        e += 1
    return e


def c_ilogb(a, w, ow):
    x = decode(a, w)
    M = (1 << ow) - 1
    if x[0] == "zero" or x[0] == "nan":
        return (-(1 << 31)) & M          # FP_ILOGB0 == FP_ILOGBNAN == INT_MIN (glibc, x86-64)
    if x[0] == "inf":
        return (1 << 31) - 1
    return _exponent(x[1]) & M


def c_logb(a, w):
    x = decode(a, w)
    if x[0] == "nan":
        return qnan(w)
    if x[0] == "zero":
        return inf(1, w)
    if x[0] == "inf":
        return inf(0, w)
    return encode(Fraction(_exponent(x[1])), w)


def c_frexp_m(a, w):
    x = decode(a, w)
    if x[0] != "num":
        return a
    e = _exponent(x[1]) + 1
    return encode(x[1] / (Fraction(2) ** e), w)


def c_frexp_e(a, w, ow):
    x = decode(a, w)
    if x[0] != "num":
        return 0
    return (_exponent(x[1]) + 1) & ((1 << ow) - 1)


def c_ldexp(a, e, w, ew, mode="RN"):
    x = decode(a, w)
    if x[0] != "num":
        return a
    n = e - (1 << ew) if e >> (ew - 1) else e
    n = max(-100000, min(100000, n))
    return encode(x[1] * (Fraction(2) ** n), w, mode)


# ---------------------------------------------------------------------------
# AVX-512 special-purpose float instructions (Intel SDM vol. 2, VGETEXP / VGETMANT / VSCALEF /
# VFIXUPIMM / VRANGE operation sections), MXCSR.DAZ = 0.

def _quiet(v, w):
    p = FMT[w][0]
    return v | (1 << (p - 2))


def x86_getexp(a, w):
    """VGETEXP: floor(log2|x|) as a float; NaN -> QNaN(src), +-inf -> +inf, +-0 -> -inf; denormals are
    normalised first"""
    x = decode(a, w)
    if x[0] == "nan":
        return _quiet(a, w)
    if x[0] == "inf":
        return inf(0, w)
    if x[0] == "zero":
        return inf(1, w)
    return encode(Fraction(_exponent(x[1])), w)


def x86_getmant(a, imm, w):
    """VGETMANT: imm[1:0] interval (0 [1,2); 1 [1/2,2) by exponent parity; 2 [1/2,1); 3 [3/4,3/2) by the
    fraction's top bit), imm[3:2] sign control (bit0: force positive; bit1: negative source -> QNaN)"""
    p, emin, emax = FMT[w]
    mb = p - 1
    x = decode(a, w)
    s = a >> (w - 1)
    sc = (imm >> 2) & 3
    iv = imm & 3
    if x[0] == "nan":
        return _quiet(a, w)
    rs = 0 if (sc & 1) else s
    one = (emax << mb)
    if x[0] in ("zero", "inf"):
        # SDM: zero and infinity sources return 1.0 with the selected sign (checked before the
        # negative-operand rule)
        return (rs << (w - 1)) | one
    if s and (sc & 2):
        return qnan(w) | (1 << (w - 1))          # QNaN indefinite
    q = abs(x[1])
    e = _exponent(q)
    frac = q / (Fraction(2) ** e)              # in [1,2)
    fbits = int((frac - 1) * (1 << mb))        # exact: q has at most p significant bits
    if iv == 0:
        be = emax
    elif iv == 1:
        be = emax - 1 if (e & 1) else emax
    elif iv == 2:
        be = emax - 1
    else:
        be = emax - 1 if (fbits >> (mb - 1)) & 1 else emax
    return (rs << (w - 1)) | (be << mb) | fbits


def _rint_q(q, how):
    """round the rational q to an integer: trunc floor ceil roundeven"""
    neg = q < 0
    aq = -q if neg else q
    f = aq.numerator // aq.denominator
    rem = aq - f
    if how == "trunc":
        n = f
    elif how == "floor":
        n = f + (1 if (neg and rem) else 0)
    elif how == "ceil":
        n = f + (1 if (not neg and rem) else 0)
    else:
        n = f + (1 if (rem > Fraction(1, 2) or (rem == Fraction(1, 2) and (f & 1))) else 0)
    return -n if neg else n


_IMM_RC = {0: "RN", 1: "RD", 2: "RU", 3: "RZ"}
_RC_HOW = {"RN": "roundeven", "RD": "floor", "RU": "ceil", "RZ": "trunc"}


def x86_rndscale(a, imm, w, mode="RN"):
    """VRNDSCALE: 2^-M * round_to_integer(2^M * x), M = imm[7:4]; rounding imm[1:0], or MXCSR.RC when imm[2];
    NaN -> QNaN(src); +-inf, +-0 unchanged; a zero result keeps the sign of the source (SDM RoundToIntegerSP)"""
    x = decode(a, w)
    if x[0] == "nan":
        return _quiet(a, w)
    if x[0] in ("inf", "zero"):
        return a
    M = (imm >> 4) & 15
    rc = mode if imm & 4 else _IMM_RC[imm & 3]
    q = x[1]
    if M and _exponent(q) + M > FMT[w][2]:
        return a                    # already integral at that scale (2^M * x overflows; SDM returns the source)
    n = _rint_q(q * (1 << M), _RC_HOW[rc])
    if n == 0:
        return zero(1 if q < 0 else 0, w)
    return encode(Fraction(n, 1 << M), w, "RZ")


def x86_reduce(a, imm, w, mode="RN"):
    """VREDUCE: x - 2^-M * round_to_integer(2^M * x) (SDM ReduceArgument and the special-case table):
    NaN -> QNaN(src); +-inf -> +0.0; a zero source or an exactly zero difference -> +0.0, except -0.0 when
    rounding down"""
    x = decode(a, w)
    if x[0] == "nan":
        return _quiet(a, w)
    if x[0] == "inf":
        return zero(0, w)
    M = (imm >> 4) & 15
    rc = mode if imm & 4 else _IMM_RC[imm & 3]
    zs = 1 if rc == "RD" else 0
    if x[0] == "zero":
        return zero(zs, w)
    q = x[1]
    if M and _exponent(q) + M > FMT[w][2]:
        return zero(zs, w)
    n = _rint_q(q * (1 << M), _RC_HOW[rc])
    d = q - Fraction(n, 1 << M)
    if d == 0:
        return zero(zs, w)
    return encode(d, w, rc)


def x86_scalef(a, b, w, mode="RN"):
    """VSCALEF: a * 2^floor(b), rounded once in the current mode; NaN operands propagate (first source
    first); (0, +inf) and (inf, -inf) give the QNaN indefinite"""
    x, y = decode(a, w), decode(b, w)
    if x[0] == "nan":
        return _quiet(a, w)
    if y[0] == "nan":
        return _quiet(b, w)
    ind = qnan(w) | (1 << (w - 1))
    sa = a >> (w - 1)
    if y[0] == "inf":
        if y[1] == 0:       # +inf
            if x[0] == "zero":
                return ind
            return inf(sa, w)
        if x[0] == "inf":   # -inf
            return ind
        return zero(sa, w)
    if x[0] in ("inf", "zero"):
        return a
    if y[0] == "zero":
        n = 0
    else:
        v = y[1]
        n = v.numerator // v.denominator      # floor
    n = max(-100000, min(100000, n))
    return encode(x[1] * (Fraction(2) ** n), w, mode, zero_sign=sa)


_FIX_CONST = {11: Fraction(1, 2), 12: Fraction(90), 9: Fraction(-1), 10: Fraction(1)}


def x86_fixupimm(dest, src, tbl, w):
    """VFIXUPIMM: classify src (QNaN 0, SNaN 1, zero 2, +1 3, -inf 4, +inf 5, negative 6, positive 7), take
    the 4-bit response from the table, produce the response value"""
    p, emin, emax = FMT[w]
    mb = p - 1
    x = decode(src, w)
    s = src >> (w - 1)
    if x[0] == "nan":
        j = 0 if (src >> (mb - 1)) & 1 else 1
    elif x[0] == "zero":
        j = 2
    elif x[0] == "inf":
        j = 4 if s else 5
    elif x[1] == 1:
        j = 3
    else:
        j = 6 if s else 7
    r = (tbl >> (4 * j)) & 15
    if r == 0:
        return dest
    if r == 1:
        return src
    if r == 2:
        return _quiet(src, w)
    if r == 3:
        return qnan(w) | (1 << (w - 1))
    if r == 4:
        return inf(1, w)
    if r == 5:
        return inf(0, w)
    if r == 6:
        return inf(s, w)
    if r == 7:
        return zero(1, w)
    if r == 8:
        return zero(0, w)
    if r in _FIX_CONST:
        return encode(_FIX_CONST[r], w)
    if r == 13:
        return 0x3FC90FDB if w == 32 else 0x3FF921FB54442D18        # pi/2
    big = (((1 << (w - p)) - 2) << mb) | ((1 << mb) - 1)               # MAX_FLOAT
    return big if r == 14 else big | (1 << (w - 1))


def x86_range(a, b, imm, w):
    """VRANGE with imm[1:0] in {0 min, 1 max} (the abs variants are not modelled: None)"""
    p, emin, emax = FMT[w]
    mb = p - 1
    op = imm & 3
    sc = (imm >> 2) & 3
    if op > 1:
        return None
    x, y = decode(a, w), decode(b, w)

    def snan(v, d):
        return d[0] == "nan" and not (v >> (mb - 1)) & 1
    if snan(a, x):
        return _quiet(a, w)
    if snan(b, y):
        return _quiet(b, w)
    if y[0] == "nan":
        tmp = a
    elif x[0] == "nan":
        tmp = b
    elif x[0] == "zero" and y[0] == "zero" and x[1] != y[1]:
        # SDM table "signed zero comparison": min returns the negative zero, max the positive one
        neg, pos = (a, b) if x[1] else (b, a)
        tmp = neg if op == 0 else pos
    else:
        def val(d):
            if d[0] == "inf":
                return Fraction(10) ** 6000 * (-1 if d[1] else 1)
            if d[0] == "zero":
                return Fraction(0)
            return d[1]
        vx, vy = val(x), val(y)
        if op == 0:
            tmp = a if vx <= vy else b
        else:
            tmp = a if vx >= vy else b
    body = tmp & ((1 << (w - 1)) - 1)
    if sc == 0:
        return ((a >> (w - 1)) << (w - 1)) | body
    if sc == 1:
        return tmp
    if sc == 2:
        return body
    return (1 << (w - 1)) | body
