// irdump: serialise an LLVM-14 IR module (text or bitcode) to JSON for the
// Python analyses.  Pure serialisation; nothing is evaluated.
//
// build: clang++ $(llvm-config-14 --cxxflags) -fno-rtti irdump.cc -o irdump
//        /usr/lib/llvm-14/lib/libLLVM-14.so
#include "llvm/IR/Constants.h"
#include "llvm/IR/DataLayout.h"
#include "llvm/IR/DebugInfoMetadata.h"
#include "llvm/IR/Metadata.h"
#include "llvm/IR/Function.h"
#include "llvm/IR/GetElementPtrTypeIterator.h"
#include "llvm/IR/InlineAsm.h"
#include "llvm/IR/Instructions.h"
#include "llvm/IR/IntrinsicInst.h"
#include "llvm/IR/LLVMContext.h"
#include "llvm/IR/Module.h"
#include "llvm/IR/Operator.h"
#include "llvm/IRReader/IRReader.h"
#include "llvm/Support/SourceMgr.h"
#include "llvm/Support/raw_ostream.h"
#include <map>
#include <string>

using namespace llvm;

static const DataLayout *DL;
static std::map<const Value *, unsigned> Ids;   // instruction ids per function
static std::map<const BasicBlock *, unsigned> BIds;
static std::map<const Argument *, unsigned> AIds;

static std::string esc(StringRef s) {
  std::string o;
  for (unsigned char c : s) {
    if (c == '"' || c == '\\') { o += '\\'; o += (char)c; }
    else if (c < 0x20 || c >= 0x7f) { char b[8]; snprintf(b, sizeof b, "\\u%04x", c); o += b; }
    else o += (char)c;
  }
  return o;
}

static std::string tyStr(Type *T) {
  std::string s; raw_string_ostream os(s); T->print(os, false, true); return os.str();
}

static void emitType(raw_ostream &O, Type *T) {
  O << "{\"s\":\"" << esc(tyStr(T)) << "\"";
  if (auto *VT = dyn_cast<FixedVectorType>(T)) {
    Type *E = VT->getElementType();
    O << ",\"n\":" << VT->getNumElements();
    if (E->isIntegerTy()) O << ",\"ek\":\"i\",\"eb\":" << E->getIntegerBitWidth();
    else if (E->isFloatTy()) O << ",\"ek\":\"f\",\"eb\":32";
    else if (E->isDoubleTy()) O << ",\"ek\":\"f\",\"eb\":64";
    else if (E->isPointerTy()) O << ",\"ek\":\"p\",\"eb\":64";
    else O << ",\"ek\":\"?\",\"eb\":0";
  } else if (T->isIntegerTy()) O << ",\"ek\":\"i\",\"eb\":" << T->getIntegerBitWidth();
  else if (T->isFloatTy()) O << ",\"ek\":\"f\",\"eb\":32";
  else if (T->isDoubleTy()) O << ",\"ek\":\"f\",\"eb\":64";
  else if (T->isPointerTy()) O << ",\"ek\":\"p\",\"eb\":64";
  else if (T->isVoidTy()) O << ",\"ek\":\"v\",\"eb\":0";
  else if (T->isX86_FP80Ty()) O << ",\"ek\":\"f\",\"eb\":80";
  else O << ",\"ek\":\"?\"";
  if (T->isSized()) O << ",\"bits\":" << DL->getTypeSizeInBits(T).getFixedSize();
  O << "}";
}

static void emitValue(raw_ostream &O, const Value *V);

static void emitConst(raw_ostream &O, const Constant *C) {
  if (auto *CI = dyn_cast<ConstantInt>(C)) {
    O << "{\"k\":\"ci\",\"bits\":" << CI->getBitWidth() << ",\"v\":";
    SmallString<40> S; CI->getValue().toStringUnsigned(S); O << S << "}";
  } else if (auto *CF = dyn_cast<ConstantFP>(C)) {
    APInt B = CF->getValueAPF().bitcastToAPInt();
    SmallString<40> S; B.toStringUnsigned(S);
    O << "{\"k\":\"cf\",\"bits\":" << B.getBitWidth() << ",\"v\":" << S << "}";
  } else if (isa<ConstantAggregateZero>(C)) {
    O << "{\"k\":\"cz\",\"t\":"; emitType(O, C->getType()); O << "}";
  } else if (isa<UndefValue>(C)) {
    O << "{\"k\":\"cu\",\"poison\":" << (isa<PoisonValue>(C) ? "true" : "false") << ",\"t\":";
    emitType(O, C->getType()); O << "}";
  } else if (isa<ConstantPointerNull>(C)) {
    O << "{\"k\":\"cn\"}";
  } else if (auto *GV = dyn_cast<GlobalVariable>(C)) {
    O << "{\"k\":\"g\",\"name\":\"" << esc(GV->getName()) << "\"}";
  } else if (auto *F = dyn_cast<Function>(C)) {
    O << "{\"k\":\"f\",\"name\":\"" << esc(F->getName()) << "\"}";
  } else if (isa<ConstantDataSequential>(C) || isa<ConstantVector>(C) ||
             isa<ConstantArray>(C) || isa<ConstantStruct>(C)) {
    O << "{\"k\":\"cv\",\"t\":"; emitType(O, C->getType()); O << ",\"e\":[";
    unsigned n = 0;
    if (auto *CDS = dyn_cast<ConstantDataSequential>(C)) n = CDS->getNumElements();
    else n = C->getNumOperands();
    for (unsigned i = 0; i < n; i++) {
      if (i) O << ",";
      emitConst(O, C->getAggregateElement(i));
    }
    O << "]}";
  } else if (auto *CE = dyn_cast<ConstantExpr>(C)) {
    O << "{\"k\":\"ce\",\"op\":\"" << CE->getOpcodeName() << "\",\"t\":";
    emitType(O, CE->getType());
    if (auto *GEP = dyn_cast<GEPOperator>(CE)) {
      APInt Off(64, 0);
      if (GEP->accumulateConstantOffset(*DL, Off)) O << ",\"coff\":" << Off.getSExtValue();
    }
    O << ",\"ops\":[";
    for (unsigned i = 0; i < CE->getNumOperands(); i++) {
      if (i) O << ",";
      emitValue(O, CE->getOperand(i));
    }
    O << "]}";
  } else if (isa<GlobalAlias>(C)) {
    O << "{\"k\":\"g\",\"name\":\"" << esc(C->getName()) << "\"}";
  } else {
    O << "{\"k\":\"c?\",\"t\":"; emitType(O, C->getType()); O << "}";
  }
}

static void emitValue(raw_ostream &O, const Value *V) {
  if (auto *A = dyn_cast<Argument>(V)) { O << "{\"k\":\"a\",\"n\":" << A->getArgNo() << "}"; return; }
  if (auto *I = dyn_cast<Instruction>(V)) { O << "{\"k\":\"i\",\"id\":" << Ids[I] << "}"; return; }
  if (auto *B = dyn_cast<BasicBlock>(V)) { O << "{\"k\":\"b\",\"id\":" << BIds[B] << "}"; return; }
  if (auto *C = dyn_cast<Constant>(V)) { emitConst(O, C); return; }
  if (auto *IA = dyn_cast<InlineAsm>(V)) {
    O << "{\"k\":\"asm\",\"s\":\"" << esc(IA->getAsmString()) << "\",\"c\":\""
      << esc(IA->getConstraintString()) << "\",\"sideeffect\":"
      << (IA->hasSideEffects() ? "true" : "false") << "}";
    return;
  }
  if (auto *MV = dyn_cast<MetadataAsValue>(V))
    if (auto *MS = dyn_cast<MDString>(MV->getMetadata())) {
      O << "{\"k\":\"md\",\"s\":\"" << esc(MS->getString()) << "\"}";
      return;
    }
  O << "{\"k\":\"md\"}";
}

static void emitInst(raw_ostream &O, const Instruction &I) {
  O << "{\"id\":" << Ids[&I] << ",\"op\":\"" << I.getOpcodeName() << "\",\"t\":";
  emitType(O, I.getType());
  if (auto *C = dyn_cast<CmpInst>(&I))
    O << ",\"pred\":\"" << CmpInst::getPredicateName(C->getPredicate()) << "\"";
  if (auto *OB = dyn_cast<OverflowingBinaryOperator>(&I)) {
    if (OB->hasNoSignedWrap()) O << ",\"nsw\":true";
    if (OB->hasNoUnsignedWrap()) O << ",\"nuw\":true";
  }
  if (auto *PE = dyn_cast<PossiblyExactOperator>(&I))
    if (PE->isExact()) O << ",\"exact\":true";
  if (auto *FP = dyn_cast<FPMathOperator>(&I)) {
    FastMathFlags F = FP->getFastMathFlags();
    if (F.any()) {
      O << ",\"fmf\":\"";
      if (F.isFast()) O << "fast";
      else {
        if (F.allowReassoc()) O << "reassoc ";
        if (F.noNaNs()) O << "nnan ";
        if (F.noInfs()) O << "ninf ";
        if (F.noSignedZeros()) O << "nsz ";
        if (F.allowReciprocal()) O << "arcp ";
        if (F.allowContract()) O << "contract ";
        if (F.approxFunc()) O << "afn ";
      }
      O << "\"";
    }
  }
  unsigned nops = I.getNumOperands();
  if (auto *CB = dyn_cast<CallBase>(&I)) {
    nops = CB->arg_size();
    const Value *Callee = CB->getCalledOperand()->stripPointerCasts();
    if (auto *F = dyn_cast<Function>(Callee)) {
      O << ",\"callee\":\"" << esc(F->getName()) << "\"";
      if (F->isIntrinsic()) O << ",\"intr\":true";
      if (F->doesNotAccessMemory()) O << ",\"readnone\":true";
      else if (F->onlyReadsMemory()) O << ",\"readonly\":true";
    } else if (auto *IA = dyn_cast<InlineAsm>(Callee)) {
      O << ",\"asm\":\"" << esc(IA->getAsmString()) << "\",\"asmc\":\""
        << esc(IA->getConstraintString()) << "\"";
    } else {
      O << ",\"callee\":null,\"calleev\":"; emitValue(O, Callee);
    }
  }
  if (auto *SV = dyn_cast<ShuffleVectorInst>(&I)) {
    O << ",\"mask\":[";
    bool f = true;
    for (int m : SV->getShuffleMask()) { if (!f) O << ","; f = false; O << m; }
    O << "]";
    nops = 2;
  }
  if (auto *L = dyn_cast<LoadInst>(&I)) {
    O << ",\"align\":" << L->getAlign().value();
    if (L->isVolatile()) O << ",\"volatile\":true";
    if (L->isAtomic()) O << ",\"atomic\":true";
  }
  if (auto *S = dyn_cast<StoreInst>(&I)) {
    O << ",\"align\":" << S->getAlign().value();
    if (S->isVolatile()) O << ",\"volatile\":true";
    if (S->isAtomic()) O << ",\"atomic\":true";
  }
  if (auto *A = dyn_cast<AllocaInst>(&I)) {
    O << ",\"align\":" << A->getAlign().value() << ",\"aty\":";
    emitType(O, A->getAllocatedType());
  }
  if (auto *G = dyn_cast<GetElementPtrInst>(&I)) {
    if (G->isInBounds()) O << ",\"inbounds\":true";
    O << ",\"srcty\":"; emitType(O, G->getSourceElementType());
    // decomposition: constant byte offset + sum(stride * operand)
    int64_t base = 0;
    O << ",\"terms\":[";
    bool first = true;
    for (gep_type_iterator GTI = gep_type_begin(G), E = gep_type_end(G); GTI != E; ++GTI) {
      const Value *Idx = GTI.getOperand();
      if (StructType *ST = GTI.getStructTypeOrNull()) {
        unsigned f = cast<ConstantInt>(Idx)->getZExtValue();
        base += DL->getStructLayout(ST)->getElementOffset(f);
        continue;
      }
      uint64_t stride = DL->getTypeAllocSize(GTI.getIndexedType()).getFixedSize();
      if (auto *CI = dyn_cast<ConstantInt>(Idx)) { base += (int64_t)stride * CI->getSExtValue(); continue; }
      if (!first) O << ",";
      first = false;
      O << "[" << stride << ","; emitValue(O, Idx); O << "]";
    }
    O << "],\"coff\":" << base;
  }
  if (auto *SW = dyn_cast<SwitchInst>(&I)) {
    O << ",\"cases\":[";
    bool f = true;
    for (auto &C : SW->cases()) {
      if (!f) O << ","; f = false;
      SmallString<40> S; C.getCaseValue()->getValue().toStringUnsigned(S);
      O << "[" << S << "," << BIds[C.getCaseSuccessor()] << "]";
    }
    O << "],\"default\":" << BIds[SW->getDefaultDest()];
    nops = 1;
  }
  if (auto *P = dyn_cast<PHINode>(&I)) {
    O << ",\"inc\":[";
    for (unsigned i = 0; i < P->getNumIncomingValues(); i++) {
      if (i) O << ",";
      O << "["; emitValue(O, P->getIncomingValue(i)); O << "," << BIds[P->getIncomingBlock(i)] << "]";
    }
    O << "]";
    nops = 0;
  }
  if (auto *EV = dyn_cast<ExtractValueInst>(&I)) {
    O << ",\"idx\":["; bool f = true;
    for (unsigned i : EV->indices()) { if (!f) O << ","; f = false; O << i; }
    O << "]";
  }
  if (auto *IV = dyn_cast<InsertValueInst>(&I)) {
    O << ",\"idx\":["; bool f = true;
    for (unsigned i : IV->indices()) { if (!f) O << ","; f = false; O << i; }
    O << "]";
  }
  if (const DebugLoc &D = I.getDebugLoc()) {
    // innermost location plus the outermost (inlined-at root)
    O << ",\"loc\":\"" << esc(D->getFilename()) << ":" << D.getLine() << "\"";
    if (auto *Sc = D->getScope())
      if (auto *SP = Sc->getSubprogram())
        O << ",\"fn\":\"" << esc(SP->getName()) << "\"";
  }
  O << ",\"ops\":[";
  for (unsigned i = 0; i < nops; i++) {
    if (i) O << ",";
    emitValue(O, I.getOperand(i));
  }
  O << "]}";
}

int main(int argc, char **argv) {
  if (argc < 2) { errs() << "usage: irdump file.ll [name-prefix]\n"; return 2; }
  std::string prefix = argc > 2 ? argv[2] : "";
  LLVMContext Ctx;
  SMDiagnostic Err;
  std::unique_ptr<Module> M = parseIRFile(argv[1], Err, Ctx);
  if (!M) { Err.print(argv[0], errs()); return 2; }
  DL = &M->getDataLayout();
  raw_ostream &O = outs();
  O << "{\"triple\":\"" << esc(M->getTargetTriple()) << "\",\"globals\":{";
  bool first = true;
  for (const GlobalVariable &G : M->globals()) {
    if (!first) O << ",";
    first = false;
    O << "\n\"" << esc(G.getName()) << "\":{\"const\":" << (G.isConstant() ? "true" : "false")
      << ",\"t\":"; emitType(O, G.getValueType());
    O << ",\"align\":" << (G.getAlign() ? G.getAlign()->value() : 0);
    O << ",\"linkage\":" << (int)G.getLinkage();
    if (G.hasInitializer()) { O << ",\"init\":"; emitConst(O, G.getInitializer()); }
    O << "}";
  }
  O << "},\"functions\":{";
  first = true;
  for (const Function &F : *M) {
    if (!prefix.empty() && !F.getName().startswith(prefix) && !F.isDeclaration()) {
      // still emit non-wrapper definitions: callers may reference them
    }
    if (!first) O << ",";
    first = false;
    Ids.clear(); BIds.clear();
    unsigned n = 0, b = 0;
    for (const BasicBlock &BB : F) { BIds[&BB] = b++; for (const Instruction &I : BB) Ids[&I] = n++; }
    O << "\n\"" << esc(F.getName()) << "\":{\"decl\":" << (F.isDeclaration() ? "true" : "false");
    O << ",\"linkage\":" << (int)F.getLinkage();
    O << ",\"ret\":"; emitType(O, F.getReturnType());
    if (F.doesNotAccessMemory()) O << ",\"readnone\":true";
    else if (F.onlyReadsMemory()) O << ",\"readonly\":true";
    if (F.hasFnAttribute(Attribute::AlwaysInline)) O << ",\"alwaysinline\":true";
    if (DISubprogram *SP = F.getSubprogram())
      O << ",\"src\":\"" << esc(SP->getFilename()) << ":" << SP->getLine() << "\",\"srcname\":\""
        << esc(SP->getName()) << "\"";
    O << ",\"args\":[";
    for (const Argument &A : F.args()) {
      if (A.getArgNo()) O << ",";
      O << "{\"name\":\"" << esc(A.getName()) << "\",\"t\":"; emitType(O, A.getType());
      if (A.hasByValAttr()) { O << ",\"byval\":"; emitType(O, A.getParamByValType()); }
      if (A.hasStructRetAttr()) { O << ",\"sret\":"; emitType(O, A.getParamStructRetType()); }
      if (A.getParamAlign()) O << ",\"align\":" << A.getParamAlign()->value();
      O << "}";
    }
    O << "],\"blocks\":[";
    bool fb = true;
    for (const BasicBlock &BB : F) {
      if (!fb) O << ",";
      fb = false;
      O << "\n {\"id\":" << BIds[&BB] << ",\"name\":\"" << esc(BB.getName()) << "\",\"insts\":[";
      bool fi = true;
      for (const Instruction &I : BB) {
        if (isa<DbgInfoIntrinsic>(&I)) continue;
        if (!fi) O << ",";
        fi = false;
        O << "\n  "; emitInst(O, I);
      }
      O << "]}";
    }
    O << "]}";
  }
  O << "}}\n";
  return 0;
}
