"""x86 intrinsic table: one entry per intrinsic that survives -O2 and can be
the primitive of an accepted form or appear in a footprint.  Each entry maps
the call to the term that denotes its SDM meaning (lane map included).  An
intrinsic without an entry stays opaque => UNDECIDED, never a guess."""
import term as T

TABLE = {}


def entry(*names):
    def d(f):
        for n in names:
            TABLE[n] = f
        return f
    return d


def _ptest(kind):
    def h(I, ins, args, cond):
        a, b = args
        w = a[1]
        if kind == "z":
            c = T.icmp("eq", T.and_(a, b), T.const(w, 0))
        elif kind == "c":
            c = T.icmp("eq", T.and_(T.not_(a), b), T.const(w, 0))
        else:
            c = T.and_(T.icmp("ne", T.and_(a, b), T.const(w, 0)),
                       T.icmp("ne", T.and_(T.not_(a), b), T.const(w, 0)))
        return T.zext(c, 32)
    return h


# SDM PTEST: ZF = ((SRC AND DEST) == 0), CF = ((SRC AND NOT DEST) == 0)
for _p in ("llvm.x86.sse41.ptest", "llvm.x86.avx.ptest"):
    for _k in ("z", "c", "nzc"):
        TABLE[_p + _k] = _ptest(_k)
        TABLE[_p + _k + ".256"] = _ptest(_k)


def _blendv(eb):
    # SDM (V)BLENDVPS/PD, PBLENDVB: IF mask[i].msb THEN src2[i] ELSE src1[i]
    def h(I, ins, args, cond):
        a, b, m = args
        n = a[1] // eb
        return T.concat([T.select(T.slice_(m, i * eb + eb - 1, 1), T.slice_(b, i * eb, eb), T.slice_(a, i * eb, eb))
                         for i in range(n)])
    return h


TABLE["llvm.x86.sse41.blendvps"] = _blendv(32)
TABLE["llvm.x86.sse41.blendvpd"] = _blendv(64)
TABLE["llvm.x86.sse41.pblendvb"] = _blendv(8)
TABLE["llvm.x86.avx.blendv.ps.256"] = _blendv(32)
TABLE["llvm.x86.avx.blendv.pd.256"] = _blendv(64)
TABLE["llvm.x86.avx2.pblendvb"] = _blendv(8)


# ---------------------------------------------------------------------------
# shifts.  SDM PSLLW/D/Q, PSRLW/D/Q: "If the value specified by the count
# operand is greater than 15/31/63 the destination is set to all 0s"; PSRAW/D/Q:
# "... each element is filled with the initial value of the sign bit".  The
# count is the low 64 bits of the second operand.  VPSLLV/VPSRLV/VPSRAV: same
# per element with the element's own count.

def _shift_uniform(kind, eb):
    def h(I, ins, args, cond):
        v, cnt = args
        c = T.slice_(cnt, 0, 64) if cnt[1] >= 64 else cnt
        n = v[1] // eb
        return T.concat([T.shift(kind, T.slice_(v, i * eb, eb), c, True) for i in range(n)])
    return h


def _shift_var(kind, eb):
    def h(I, ins, args, cond):
        v, cnt = args
        n = v[1] // eb
        return T.concat([T.shift(kind, T.slice_(v, i * eb, eb), T.slice_(cnt, i * eb, eb), True)
                         for i in range(n)])
    return h


for _k, _kind in (("psll", "shl"), ("psrl", "lshr"), ("psra", "ashr")):
    for _s, _eb in (("w", 16), ("d", 32), ("q", 64)):
        for _pre in ("llvm.x86.sse2.", "llvm.x86.avx2.", "llvm.x86.avx512."):
            for _suf in ("", ".128", ".256", ".512"):
                TABLE[_pre + _k + "." + _s + _suf] = _shift_uniform(_kind, _eb)
                TABLE[_pre + _k + "v." + _s + _suf] = _shift_var(_kind, _eb)


# immediate forms (pslli etc.) take an i32 count
for _k, _kind in (("pslli", "shl"), ("psrli", "lshr"), ("psrai", "ashr")):
    for _s, _eb in (("w", 16), ("d", 32), ("q", 64)):
        for _pre in ("llvm.x86.sse2.", "llvm.x86.avx2.", "llvm.x86.avx512."):
            for _suf in ("", ".128", ".256", ".512"):
                TABLE[_pre + _k + "." + _s + _suf] = _shift_uniform(_kind, _eb)


# ---------------------------------------------------------------------------
# packs.  SDM PACKUSWB: "converts signed word integers into unsigned byte
# integers using unsigned saturation"; within each 128-bit block the low 8
# bytes come from the first operand, the high 8 from the second.

def _pack(sat, src_eb):
    def h(I, ins, args, cond):
        a, b = args
        out = []
        per = 128 // src_eb
        for blk in range(a[1] // 128):
            for src in (a, b):
                for i in range(per):
                    x = T.slice_(src, blk * 128 + i * src_eb, src_eb)
                    out.append(T.saturate(sat, x, src_eb // 2))
        return T.concat(out)
    return h


for _n, _sat, _eb in (("packuswb", "us", 16), ("packsswb", "ss", 16), ("packusdw", "us", 32),
                      ("packssdw", "ss", 32)):
    for _pre, _suf in (("llvm.x86.sse2.", ".128"), ("llvm.x86.sse41.", ""), ("llvm.x86.avx2.", ""),
                       ("llvm.x86.avx512.", ".512"), ("llvm.x86.sse2.", "")):
        TABLE[_pre + _n + _suf] = _pack(_sat, _eb)


# ---------------------------------------------------------------------------
# PSHUFB: per 128-bit block, "if the most significant bit of the control byte is
# set, zero is written; else the low 4 bits select the source byte".

def _pshufb(I, ins, args, cond):
    a, ctl = args
    out = []
    for i in range(a[1] // 8):
        c = T.slice_(ctl, i * 8, 8)
        blk = i // 16
        if c[0] == "const":
            if c[2] & 0x80:
                out.append(T.const(8, 0))
            else:
                out.append(T.slice_(a, blk * 128 + (c[2] & 15) * 8, 8))
        else:
            out.append(T.op("x86.pshufb", 8, T.slice_(a, blk * 128, 128), c))
    return T.concat(out)


for _n in ("llvm.x86.ssse3.pshuf.b.128", "llvm.x86.avx2.pshuf.b", "llvm.x86.avx512.pshuf.b.512"):
    TABLE[_n] = _pshufb


# ---------------------------------------------------------------------------
# VPTERNLOG: bitwise truth table imm8[(a<<2)|(b<<1)|c]

def _ternlog(I, ins, args, cond):
    a, b, c, imm = args
    if imm[0] != "const":
        return NotImplemented
    return T.truth3(a, b, c, imm[2])


for _s in ("d", "q"):
    for _w in ("128", "256", "512"):
        TABLE["llvm.x86.avx512.pternlog.%s.%s" % (_s, _w)] = _ternlog


# ---------------------------------------------------------------------------
# GF2P8AFFINEQB: out.bit[i] = parity(matrix.byte[7-i] AND x.byte) XOR imm8.bit[i]

def _affine(I, ins, args, cond):
    x, A, imm = args
    if imm[0] != "const" or A[0] != "const":
        return NotImplemented
    out = []
    for by in range(x[1] // 8):
        q = by // 8
        xb = T.slice_(x, by * 8, 8)
        bits_ = []
        for i in range(8):
            row = (A[2] >> (q * 64 + (7 - i) * 8)) & 0xFF
            sel = [T.slice_(xb, k, 1) for k in range(8) if (row >> k) & 1]
            if (imm[2] >> i) & 1:
                sel.append(T.const(1, 1))
            bits_.append(T.nary("xor", 1, sel) if len(sel) > 1 else (sel[0] if sel else T.const(1, 0)))
        out.append(T.concat(bits_))
    return T.concat(out)


for _w in ("128", "256", "512"):
    TABLE["llvm.x86.vgf2p8affineqb." + _w] = _affine


# ---------------------------------------------------------------------------
# MINPS/MAXPS family.  SDM: MIN(a,b) = (a < b) ? a : b ; MAX(a,b) = (a > b) ? a : b
# ("if either value is a NaN or both are zero, the second operand is returned").

def _fminmax(which, eb):
    def h(I, ins, args, cond):
        a, b = args[0], args[1]
        n = a[1] // eb
        p = "olt" if which == "min" else "ogt"
        return T.concat([T.select(T.fcmp(p, T.slice_(a, i * eb, eb), T.slice_(b, i * eb, eb)),
                                  T.slice_(a, i * eb, eb), T.slice_(b, i * eb, eb)) for i in range(n)])
    return h


for _w in ("min", "max"):
    TABLE["llvm.x86.sse.%s.ps" % _w] = _fminmax(_w, 32)
    TABLE["llvm.x86.sse2.%s.pd" % _w] = _fminmax(_w, 64)
    TABLE["llvm.x86.avx.%s.ps.256" % _w] = _fminmax(_w, 32)
    TABLE["llvm.x86.avx.%s.pd.256" % _w] = _fminmax(_w, 64)


def _fminmax512(which, eb):
    g = _fminmax(which, eb)

    def h(I, ins, args, cond):
        # (a, b, rounding) ; rounding 4 = current direction
        if args[2][0] != "const" or args[2][2] != 4:
            return NotImplemented
        return g(I, ins, args[:2], cond)
    return h


for _w in ("min", "max"):
    TABLE["llvm.x86.avx512.%s.ps.512" % _w] = _fminmax512(_w, 32)
    TABLE["llvm.x86.avx512.%s.pd.512" % _w] = _fminmax512(_w, 64)


# PAVGB/PAVGW: (a + b + 1) >> 1 computed without overflow
def _pavg(eb):
    def h(I, ins, args, cond):
        a, b = args
        n = a[1] // eb
        W = eb + 1
        out = []
        for i in range(n):
            x, y = T.zext(T.slice_(a, i * eb, eb), W), T.zext(T.slice_(b, i * eb, eb), W)
            out.append(T.slice_(T.nary("add", W, [x, y, T.const(W, 1)]), 1, eb))
        return T.concat(out)
    return h


for _n in ("llvm.x86.sse2.pavg.b", "llvm.x86.avx2.pavg.b", "llvm.x86.avx512.pavg.b.512"):
    TABLE[_n] = _pavg(8)
for _n in ("llvm.x86.sse2.pavg.w", "llvm.x86.avx2.pavg.w", "llvm.x86.avx512.pavg.w.512"):
    TABLE[_n] = _pavg(16)


# PSIGNB/W/D: b < 0 ? -a : (b == 0 ? 0 : a)
def _psign(eb):
    def h(I, ins, args, cond):
        a, b = args
        n = a[1] // eb
        out = []
        for i in range(n):
            x, y = T.slice_(a, i * eb, eb), T.slice_(b, i * eb, eb)
            out.append(T.select(T.msb(y), T.neg(x), T.select(T.icmp("eq", y, T.const(eb, 0)), T.const(eb, 0), x)))
        return T.concat(out)
    return h


for _s, _eb in (("b", 8), ("w", 16), ("d", 32)):
    TABLE["llvm.x86.ssse3.psign.%s.128" % _s] = _psign(_eb)
    TABLE["llvm.x86.avx2.psign.%s" % _s] = _psign(_eb)


# ---------------------------------------------------------------------------
# memory-touching intrinsics (footprint table of DESIGN section 4/C09)
import irterm as _ir


def _maskmovdqu(I, ins, args, cond):
    # SDM MASKMOVDQU: stores the bytes of xmm1 whose mask byte has its msb set to
    # [rdi]..[rdi+15].  The instruction addresses the whole 16-byte location: "exceptions
    # associated with addressing memory and page faults may still be signaled" even for an
    # all-zero mask -> architectural footprint 16 bytes, no fault suppression.
    v, m, p = args
    base, off = _ir.split_addr(p)
    if T.is_zero(cond):
        return None
    I._S.accesses.append(_ir.Access("wf", base, off, 16, cond, None, 1, False, "maskmovdqu (16-byte footprint)",
                                    ins.get("loc")))
    for i in range(16):
        mb = T.slice_(m, 8 * i + 7, 1)
        if T.is_zero(mb):
            continue
        I.do_store(T.add(p, T.const(64, i)), T.slice_(v, 8 * i, 8), T.and_(cond, mb), 1, "maskmovdqu",
                   ins.get("loc"), suppressed=False)
    return None


TABLE["llvm.x86.sse2.maskmov.dqu"] = _maskmovdqu


def _maskload(eb):
    # SDM VMASKMOVPS/VPMASKMOVD (load form): element i is loaded if mask[i].msb, else 0;
    # "faults will not occur due to referencing any memory location if the corresponding mask bit is 0"
    def h(I, ins, args, cond):
        p, m = args
        n = m[1] // eb
        out = []
        for i in range(n):
            mb = T.slice_(m, eb * i + eb - 1, 1)
            if T.is_zero(mb):
                out.append(T.const(eb, 0))
                continue
            v = I.do_load(T.add(p, T.const(64, i * eb // 8)), eb, T.and_(cond, mb), 1, "maskload",
                          ins.get("loc"), suppressed=True)
            out.append(T.select(mb, v, T.const(eb, 0)))
        return T.concat(out)
    return h


def _maskstore(eb):
    def h(I, ins, args, cond):
        p, m, v = args
        n = m[1] // eb
        for i in range(n):
            mb = T.slice_(m, eb * i + eb - 1, 1)
            if T.is_zero(mb):
                continue
            I.do_store(T.add(p, T.const(64, i * eb // 8)), T.slice_(v, i * eb, eb), T.and_(cond, mb), 1,
                       "maskstore", ins.get("loc"), suppressed=True)
        return None
    return h


for _n, _eb in (("ps", 32), ("pd", 64), ("d", 32), ("q", 64)):
    for _pre in ("llvm.x86.avx.", "llvm.x86.avx2."):
        for _suf in ("", ".256"):
            TABLE[_pre + "maskload." + _n + _suf] = _maskload(_eb)
            TABLE[_pre + "maskstore." + _n + _suf] = _maskstore(_eb)


def _gather_avx2(idx_eb, data_eb):
    # SDM VPGATHERDD etc.: for each element with mask msb set, load [base + sext(idx)*scale]
    def h(I, ins, args, cond):
        src, p, idx, m, scale = args
        if scale[0] != "const":
            return NotImplemented
        n = min(src[1] // data_eb, idx[1] // idx_eb)
        out = []
        for i in range(src[1] // data_eb):
            if i >= n:
                out.append(T.const(data_eb, 0))
                continue
            mb = T.slice_(m, data_eb * i + data_eb - 1, 1)
            if T.is_zero(mb):
                out.append(T.slice_(src, i * data_eb, data_eb))
                continue
            ix = T.sext(T.slice_(idx, i * idx_eb, idx_eb), 64)
            addr = T.add(p, T.mul(ix, T.const(64, scale[2])))
            v = I.do_load(addr, data_eb, T.and_(cond, mb), 1, "avx2 gather", ins.get("loc"), suppressed=True)
            out.append(T.select(mb, v, T.slice_(src, i * data_eb, data_eb)))
        return T.concat(out)
    return h


for _i, _ib in (("d", 32), ("q", 64)):
    for _d, _db in (("d", 32), ("q", 64), ("ps", 32), ("pd", 64)):
        for _suf in ("", ".256"):
            TABLE["llvm.x86.avx2.gather.%s.%s%s" % (_i, _d, _suf)] = _gather_avx2(_ib, _db)


def _gather512(idx_eb, data_eb):
    # (src, ptr, idx, k-mask, scale)
    def h(I, ins, args, cond):
        src, p, idx, k, scale = args
        if scale[0] != "const":
            return NotImplemented
        n = min(src[1] // data_eb, idx[1] // idx_eb)
        out = []
        for i in range(src[1] // data_eb):
            if i >= n:
                out.append(T.const(data_eb, 0))
                continue
            mb = T.slice_(k, i, 1)
            if T.is_zero(mb):
                out.append(T.slice_(src, i * data_eb, data_eb))
                continue
            ix = T.sext(T.slice_(idx, i * idx_eb, idx_eb), 64)
            addr = T.add(p, T.mul(ix, T.const(64, scale[2])))
            v = I.do_load(addr, data_eb, T.and_(cond, mb), 1, "avx512 gather", ins.get("loc"), suppressed=True)
            out.append(T.select(mb, v, T.slice_(src, i * data_eb, data_eb)))
        return T.concat(out)
    return h


def _scatter512(idx_eb, data_eb):
    # (ptr, k-mask, idx, v, scale)
    def h(I, ins, args, cond):
        p, k, idx, v, scale = args
        if scale[0] != "const":
            return NotImplemented
        n = min(v[1] // data_eb, idx[1] // idx_eb)
        for i in range(n):
            mb = T.slice_(k, i, 1)
            if T.is_zero(mb):
                continue
            ix = T.sext(T.slice_(idx, i * idx_eb, idx_eb), 64)
            addr = T.add(p, T.mul(ix, T.const(64, scale[2])))
            I.do_store(addr, T.slice_(v, i * data_eb, data_eb), T.and_(cond, mb), 1, "avx512 scatter",
                       ins.get("loc"), suppressed=True)
        return None
    return h


# avx512 gather/scatter intrinsic names: dps dpd qps qpd dpi dpq qpi qpq (512) and
# gather3div2/4/8 gather3siv2/4/8 .df .di .sf .si (VL); scatterdiv/scattersiv likewise
for _nm, _ib, _db in (("dps", 32, 32), ("dpd", 32, 64), ("qps", 64, 32), ("qpd", 64, 64),
                      ("dpi", 32, 32), ("dpq", 32, 64), ("qpi", 64, 32), ("qpq", 64, 64)):
    TABLE["llvm.x86.avx512.mask.gather.%s.512" % _nm] = _gather512(_ib, _db)
    TABLE["llvm.x86.avx512.mask.scatter.%s.512" % _nm] = _scatter512(_ib, _db)
for _iv, _ib in (("div", 64), ("siv", 32)):
    for _n in ("2", "4", "8"):
        for _t, _db in (("df", 64), ("di", 64), ("sf", 32), ("si", 32)):
            TABLE["llvm.x86.avx512.mask.gather3%s%s.%s" % (_iv, _n, _t)] = _gather512(_ib, _db)
            TABLE["llvm.x86.avx512.mask.scatter%s%s.%s" % (_iv, _n, _t)] = _scatter512(_ib, _db)


# VFPCLASSPS/PD: per lane, OR of the categories selected by imm8
def _fpclass(eb):
    def h(I, ins, args, cond):
        x, imm = args[0], args[1]
        if imm[0] != "const":
            return NotImplemented
        n = x[1] // eb
        return T.concat([T.mk("x86.fpclass", 1, T.slice_(x, i * eb, eb), imm[2]) for i in range(n)])
    return h


for _w in ("128", "256", "512"):
    TABLE["llvm.x86.avx512.fpclass.ps." + _w] = _fpclass(32)
    TABLE["llvm.x86.avx512.fpclass.pd." + _w] = _fpclass(64)


# ROUNDPS/PD, VRNDSCALE with scale 0: imm[1:0] 0 nearest-even 1 floor 2 ceil 3 trunc; imm[2]=1 -> MXCSR.RC;
# imm[3] suppresses the precision exception only (same value)
_RND = {0: "call:llvm.roundeven", 1: "call:llvm.floor", 2: "call:llvm.ceil", 3: "call:llvm.trunc"}


def _round(eb):
    def h(I, ins, args, cond):
        x, imm = args[0], args[1]
        if imm[0] != "const":
            return NotImplemented
        m = imm[2]
        if m >> 4:
            # rndscale with a scale M: 2^-M * round(2^M * x)
            return T.concat([T.op("x86.rndscale", eb, T.slice_(x, i * eb, eb), m & 0xFF) for i in range(x[1] // eb)])
        name = "call:llvm.rint" if m & 4 else _RND[m & 3]
        n = x[1] // eb
        return T.concat([T.op(name, eb, T.slice_(x, i * eb, eb)) for i in range(n)])
    return h


TABLE["llvm.x86.sse41.round.ps"] = _round(32)
TABLE["llvm.x86.sse41.round.pd"] = _round(64)
TABLE["llvm.x86.avx.round.ps.256"] = _round(32)
TABLE["llvm.x86.avx.round.pd.256"] = _round(64)


def _rndscale(eb):
    g = _round(eb)

    def h(I, ins, args, cond):
        # (x, imm, passthru, mask[, rounding]) ; accept only an all-ones constant mask
        x, imm, pt, k = args[0], args[1], args[2], args[3]
        if not T.all_ones(k):
            return NotImplemented
        if len(args) > 4 and not (args[4][0] == "const" and args[4][2] == 4):
            return NotImplemented
        return g(I, ins, [x, imm], cond)
    return h


def _reduce(eb):
    def h(I, ins, args, cond):
        # (x, imm, passthru, mask[, sae])
        x, imm, pt, k = args[0], args[1], args[2], args[3]
        if imm[0] != "const" or not _sae_ok(args, 4):
            return NotImplemented
        return _masked_lanes([T.op("x86.reduce", eb, T.slice_(x, i * eb, eb), imm[2] & 0xFF)
                              for i in range(x[1] // eb)], pt, k, eb)
    return h


for _w in ("128", "256", "512"):
    TABLE["llvm.x86.avx512.mask.reduce.ps." + _w] = _reduce(32)
    TABLE["llvm.x86.avx512.mask.reduce.pd." + _w] = _reduce(64)
    TABLE["llvm.x86.avx512.mask.rndscale.ps." + _w] = _rndscale(32)
    TABLE["llvm.x86.avx512.mask.rndscale.pd." + _w] = _rndscale(64)


# STMXCSR / LDMXCSR: the control/status register as an explicit state
def _stmxcsr(I, ins, args, cond):
    cur = getattr(I._S, "mxcsr", None)
    if cur is None:
        cur = T.mk("mxcsr0", 32)
        I._S.mxcsr = cur
    I.do_store(args[0], cur, cond, 4, "stmxcsr", ins.get("loc"))
    I._S.effects.append(("stmxcsr", cur, ins.get("loc")))
    return None


def _ldmxcsr(I, ins, args, cond):
    v = I.do_load(args[0], 32, cond, 4, "ldmxcsr", ins.get("loc"))
    if not T.all_ones(cond):
        v = T.opaque(32, "conditional-ldmxcsr", v)
    I._S.mxcsr = v
    I._S.effects.append(("ldmxcsr", v, ins.get("loc")))
    return None


TABLE["llvm.x86.sse.stmxcsr"] = _stmxcsr
TABLE["llvm.x86.sse.ldmxcsr"] = _ldmxcsr


# ---------------------------------------------------------------------------
# AVX-512 arithmetic with an embedded-rounding operand.  4 = MXCSR.RC (plain operation);
# 8..11 = static rounding RN/RD/RU/RZ with exceptions suppressed: a different function.
_STATIC = {8: "RN", 9: "RD", 10: "RU", 11: "RZ", 0: "RN", 1: "RD", 2: "RU", 3: "RZ"}


def _rounded2(opname, eb):
    def h(I, ins, args, cond):
        a, b, r = args[0], args[1], args[-1]
        if r[0] != "const":
            return NotImplemented
        n = a[1] // eb
        name = opname if r[2] == 4 else "fr:%s:%s" % (_STATIC.get(r[2], "RN"), opname)
        if name == "fsub":
            return T.concat([T.fsub(eb, T.slice_(a, i * eb, eb), T.slice_(b, i * eb, eb)) for i in range(n)])
        mkop = T.opc if name in ("fadd", "fmul") else T.op
        return T.concat([mkop(name, eb, T.slice_(a, i * eb, eb), T.slice_(b, i * eb, eb)) for i in range(n)])
    return h


for _o, _n in (("add", "fadd"), ("sub", "fsub"), ("mul", "fmul"), ("div", "fdiv")):
    TABLE["llvm.x86.avx512.%s.ps.512" % _o] = _rounded2(_n, 32)
    TABLE["llvm.x86.avx512.%s.pd.512" % _o] = _rounded2(_n, 64)


def _rounded1(opname, eb):
    def h(I, ins, args, cond):
        a, r = args[0], args[-1]
        if r[0] != "const":
            return NotImplemented
        n = a[1] // eb
        name = opname if r[2] == 4 else "fr:%s:%s" % (_STATIC.get(r[2], "RN"), opname)
        return T.concat([T.op(name, eb, T.slice_(a, i * eb, eb)) for i in range(n)])
    return h


TABLE["llvm.x86.avx512.sqrt.ps.512"] = _rounded1("call:llvm.sqrt", 32)
TABLE["llvm.x86.avx512.sqrt.pd.512"] = _rounded1("call:llvm.sqrt", 64)


def _itofp_round(name):
    def h(I, ins, args, cond):
        a, r = args[0], args[-1]
        if r[0] != "const":
            return NotImplemented
        ty = ins["t"]
        n, eb = ty["n"], ty["eb"]
        sw = a[1] // n
        nm = name if r[2] == 4 else "fr:%s:%s" % (_STATIC.get(r[2], "RN"), name)
        return T.concat([T.op(nm, eb, T.slice_(a, i * sw, sw)) for i in range(n)])
    return h


for _k in list(TABLE):
    pass
import re as _re


class _Prefix(dict):
    """intrinsic names with type suffixes (uitofp.round.v16f32.v16i32)"""


def lookup_prefix(name):
    if name.startswith("llvm.x86.avx512.uitofp.round"):
        return _itofp_round("uitofp")
    if name.startswith("llvm.x86.avx512.sitofp.round"):
        return _itofp_round("sitofp")
    return None


# float -> int conversions.  SDM CVTTPS2DQ etc.: truncation; NaN / out of range give the integer
# indefinite value 0x80000000 (signed forms) or all ones (AVX-512 unsigned forms).  CVTPS2DQ rounds
# according to MXCSR.RC.
def _cvt(src_eb, dst_eb, signed, how, masked=False, scalar=False):
    def h(I, ins, args, cond):
        x = args[0]
        pt = k = None
        if masked:
            pt, k = args[1], args[2]
            if len(args) > 3 and not (args[3][0] == "const" and args[3][2] in ((4, 8) if how == "trunc" else (4,))):
                return NotImplemented
        if scalar:
            return T.op("x86.cvt", dst_eb, T.slice_(x, 0, src_eb), int(signed), how)
        ty = ins["t"]
        n_out = ty["n"]
        n_in = x[1] // src_eb
        out = []
        for i in range(n_out):
            if i < n_in:
                out.append(T.op("x86.cvt", dst_eb, T.slice_(x, i * src_eb, src_eb), int(signed), how))
            else:
                out.append(T.const(dst_eb, 0))
        if masked and not T.all_ones(k):
            # write-masking: lane i = k[i] ? converted : passthrough (lanes beyond the source stay zero)
            out = [T.select(T.slice_(k, i, 1), out[i], T.slice_(pt, i * dst_eb, dst_eb)) if i < n_in else out[i]
                   for i in range(n_out)]
        return T.concat(out)
    return h


TABLE["llvm.x86.sse2.cvttps2dq"] = _cvt(32, 32, True, "trunc")
TABLE["llvm.x86.sse2.cvtps2dq"] = _cvt(32, 32, True, "rint")
TABLE["llvm.x86.avx.cvtt.ps2dq.256"] = _cvt(32, 32, True, "trunc")
TABLE["llvm.x86.avx.cvt.ps2dq.256"] = _cvt(32, 32, True, "rint")
TABLE["llvm.x86.sse2.cvttpd2dq"] = _cvt(64, 32, True, "trunc")
TABLE["llvm.x86.avx.cvtt.pd2dq.256"] = _cvt(64, 32, True, "trunc")
TABLE["llvm.x86.avx512.mask.cvttps2dq.512"] = _cvt(32, 32, True, "trunc", masked=True)
TABLE["llvm.x86.avx512.mask.cvttps2udq.512"] = _cvt(32, 32, False, "trunc", masked=True)
TABLE["llvm.x86.avx512.mask.cvttps2udq.256"] = _cvt(32, 32, False, "trunc", masked=True)
TABLE["llvm.x86.avx512.mask.cvttps2udq.128"] = _cvt(32, 32, False, "trunc", masked=True)
TABLE["llvm.x86.avx512.mask.cvttpd2dq.512"] = _cvt(64, 32, True, "trunc", masked=True)
for _w in ("128", "256", "512"):
    TABLE["llvm.x86.avx512.mask.cvttpd2udq." + _w] = _cvt(64, 32, False, "trunc", masked=True)
    TABLE["llvm.x86.avx512.mask.cvttpd2uqq." + _w] = _cvt(64, 64, False, "trunc", masked=True)
    TABLE["llvm.x86.avx512.mask.cvttpd2qq." + _w] = _cvt(64, 64, True, "trunc", masked=True)
TABLE["llvm.x86.sse2.cvttsd2si64"] = _cvt(64, 64, True, "trunc", scalar=True)
TABLE["llvm.x86.sse2.cvtsd2si64"] = _cvt(64, 64, True, "rint", scalar=True)
TABLE["llvm.x86.sse2.cvttsd2si"] = _cvt(64, 32, True, "trunc", scalar=True)
TABLE["llvm.x86.sse.cvttss2si"] = _cvt(32, 32, True, "trunc", scalar=True)
TABLE["llvm.x86.sse.cvttss2si64"] = _cvt(32, 64, True, "trunc", scalar=True)


# PMULHW / PMULHUW: high 16 bits of the 32-bit product
def _pmulh(signed):
    def h(I, ins, args, cond):
        a, b = args
        ext = T.sext if signed else T.zext
        out = []
        for i in range(a[1] // 16):
            x, y = ext(T.slice_(a, i * 16, 16), 32), ext(T.slice_(b, i * 16, 16), 32)
            out.append(T.slice_(T.mul(x, y), 16, 16))
        return T.concat(out)
    return h


for _n in ("llvm.x86.sse2.pmulh.w", "llvm.x86.avx2.pmulh.w", "llvm.x86.avx512.pmulh.w.512"):
    TABLE[_n] = _pmulh(True)
for _n in ("llvm.x86.sse2.pmulhu.w", "llvm.x86.avx2.pmulhu.w", "llvm.x86.avx512.pmulhu.w.512"):
    TABLE[_n] = _pmulh(False)


# PMADDUBSW: signed-saturated sum of two (unsigned byte x signed byte) products
def _pmaddubsw(I, ins, args, cond):
    a, b = args
    out = []
    for i in range(a[1] // 16):
        p0 = T.mul(T.zext(T.slice_(a, i * 16, 8), 32), T.sext(T.slice_(b, i * 16, 8), 32))
        p1 = T.mul(T.zext(T.slice_(a, i * 16 + 8, 8), 32), T.sext(T.slice_(b, i * 16 + 8, 8), 32))
        out.append(T.saturate("ss", T.add(p0, p1), 16))
    return T.concat(out)


for _n in ("llvm.x86.ssse3.pmadd.ub.sw.128", "llvm.x86.avx2.pmadd.ub.sw", "llvm.x86.avx512.pmaddubs.w.512"):
    TABLE[_n] = _pmaddubsw


# ---------------------------------------------------------------------------
# AVX-512 write-masking: result lane i = k[i] ? computed : passthrough

def _masked_lanes(lanes, pt, k, eb):
    if T.all_ones(k) or (k[0] == "const" and k[2] & ((1 << len(lanes)) - 1) == (1 << len(lanes)) - 1):
        return T.concat(lanes)
    out = []
    for i, l in enumerate(lanes):
        out.append(T.select(T.slice_(k, i, 1), l, T.slice_(pt, i * eb, eb)))
    return T.concat(out)


def _sae_ok(args, idx):
    # rounding / SAE operand: 4 = current direction (8 = suppress exceptions only, same values)
    return len(args) <= idx or (args[idx][0] == "const" and args[idx][2] in (4, 8))


def _getexp(eb):
    def h(I, ins, args, cond):
        x, pt, k = args[0], args[1], args[2]
        if not _sae_ok(args, 3):
            return NotImplemented
        return _masked_lanes([T.op("x86.getexp", eb, T.slice_(x, i * eb, eb)) for i in range(x[1] // eb)], pt, k, eb)
    return h


def _getmant(eb):
    def h(I, ins, args, cond):
        x, imm, pt, k = args[0], args[1], args[2], args[3]
        if imm[0] != "const" or not _sae_ok(args, 4):
            return NotImplemented
        return _masked_lanes([T.op("x86.getmant", eb, T.slice_(x, i * eb, eb), imm[2] & 15)
                              for i in range(x[1] // eb)], pt, k, eb)
    return h


def _scalef(eb):
    def h(I, ins, args, cond):
        a, b, pt, k = args[0], args[1], args[2], args[3]
        if len(args) > 4 and not (args[4][0] == "const" and args[4][2] == 4):
            return NotImplemented          # static rounding override
        return _masked_lanes([T.op("x86.scalef", eb, T.slice_(a, i * eb, eb), T.slice_(b, i * eb, eb))
                              for i in range(a[1] // eb)], pt, k, eb)
    return h


def _fixupimm(eb, zeroing):
    def h(I, ins, args, cond):
        a, b, c, imm, k = args[0], args[1], args[2], args[3], args[4]
        if imm[0] != "const" or not _sae_ok(args, 5):
            return NotImplemented
        lanes = [T.op("x86.fixupimm", eb, T.slice_(a, i * eb, eb), T.slice_(b, i * eb, eb),
                      T.slice_(c, i * eb, 32)) for i in range(a[1] // eb)]
        pt = T.const(a[1], 0) if zeroing else a
        return _masked_lanes(lanes, pt, k, eb)
    return h


def _range(eb):
    def h(I, ins, args, cond):
        a, b, imm, pt, k = args[0], args[1], args[2], args[3], args[4]
        if imm[0] != "const" or (imm[2] & 2) or not _sae_ok(args, 5):
            return NotImplemented
        return _masked_lanes([T.op("x86.range", eb, T.slice_(a, i * eb, eb), T.slice_(b, i * eb, eb), imm[2] & 15)
                              for i in range(a[1] // eb)], pt, k, eb)
    return h


for _w in ("128", "256", "512"):
    for _s, _eb in (("ps", 32), ("pd", 64)):
        TABLE["llvm.x86.avx512.mask.getexp.%s.%s" % (_s, _w)] = _getexp(_eb)
        TABLE["llvm.x86.avx512.mask.getmant.%s.%s" % (_s, _w)] = _getmant(_eb)
        TABLE["llvm.x86.avx512.mask.scalef.%s.%s" % (_s, _w)] = _scalef(_eb)
        TABLE["llvm.x86.avx512.mask.fixupimm.%s.%s" % (_s, _w)] = _fixupimm(_eb, False)
        TABLE["llvm.x86.avx512.maskz.fixupimm.%s.%s" % (_s, _w)] = _fixupimm(_eb, True)
        TABLE["llvm.x86.avx512.mask.range.%s.%s" % (_s, _w)] = _range(_eb)


# VPERMI2B/W/D/Q/PS/PD (two-table permute) and VPERMB/W/D/Q (one table): the index selects an element
# of the concatenated tables, modulo the number of entries
def _permi2(eb):
    def h(I, ins, args, cond):
        a, idx, b = args
        tab = T.concat([a, b])
        n = a[1] // eb
        out = []
        for i in range(n):
            ix = T.slice_(idx, i * eb, eb)
            if ix[0] == "const":
                out.append(T.slice_(tab, (ix[2] & (2 * n - 1)) * eb, eb))
            else:
                out.append(T.op("x86.permx", eb, tab, ix))
        return T.concat(out)
    return h


def _permvar(eb):
    def h(I, ins, args, cond):
        a, idx = args
        n = a[1] // eb
        out = []
        for i in range(n):
            ix = T.slice_(idx, i * eb, eb)
            if ix[0] == "const":
                out.append(T.slice_(a, (ix[2] & (n - 1)) * eb, eb))
            else:
                out.append(T.op("x86.permx", eb, a, ix))
        return T.concat(out)
    return h


for _w in ("128", "256", "512"):
    for _s, _eb in (("qi", 8), ("hi", 16), ("d", 32), ("q", 64), ("ps", 32), ("pd", 64)):
        TABLE["llvm.x86.avx512.vpermi2var.%s.%s" % (_s, _w)] = _permi2(_eb)
    for _s, _eb in (("qi", 8), ("hi", 16), ("si", 32), ("di", 64), ("sf", 32), ("df", 64)):
        TABLE["llvm.x86.avx512.permvar.%s.%s" % (_s, _w)] = _permvar(_eb)
TABLE["llvm.x86.avx2.permd"] = _permvar(32)
TABLE["llvm.x86.avx2.permps"] = _permvar(32)


TABLE["llvm.x86.avx512.mask.cvtps2dq.512"] = _cvt(32, 32, True, "rint", masked=True)
TABLE["llvm.x86.avx512.mask.cvtps2dq.256"] = _cvt(32, 32, True, "rint", masked=True)
TABLE["llvm.x86.avx512.mask.cvtps2dq.128"] = _cvt(32, 32, True, "rint", masked=True)
TABLE["llvm.x86.avx512.mask.cvtpd2dq.512"] = _cvt(64, 32, True, "rint", masked=True)
TABLE["llvm.x86.avx512.mask.cvtpd2dq.128"] = _cvt(64, 32, True, "rint", masked=True)
TABLE["llvm.x86.avx512.mask.cvttpd2dq.128"] = _cvt(64, 32, True, "trunc", masked=True)
TABLE["llvm.x86.avx.cvt.pd2dq.256"] = _cvt(64, 32, True, "rint")
TABLE["llvm.x86.sse2.cvtpd2dq"] = _cvt(64, 32, True, "rint")
for _w in ("128", "256", "512"):
    TABLE["llvm.x86.avx512.mask.cvtpd2qq." + _w] = _cvt(64, 64, True, "rint", masked=True)
    TABLE["llvm.x86.avx512.mask.cvtps2qq." + _w] = _cvt(32, 64, True, "rint", masked=True)
    TABLE["llvm.x86.avx512.mask.cvttps2qq." + _w] = _cvt(32, 64, True, "trunc", masked=True)


# VPMOVSQD etc.: signed saturating down-conversion, write-masked; the upper part of a 128-bit result is zero
def _pmovs(src_eb, dst_eb):
    def h(I, ins, args, cond):
        x, pt, k = args
        n_in = x[1] // src_eb
        n_out = ins["t"]["n"]
        out = []
        for i in range(n_out):
            if i < n_in:
                v = T.saturate("ss", T.slice_(x, i * src_eb, src_eb), dst_eb)
                if not T.all_ones(k):
                    v = T.select(T.slice_(k, i, 1), v, T.slice_(pt, i * dst_eb, dst_eb))
                out.append(v)
            else:
                out.append(T.const(dst_eb, 0))
        return T.concat(out)
    return h


for _w in ("128", "256", "512"):
    TABLE["llvm.x86.avx512.mask.pmovs.qd." + _w] = _pmovs(64, 32)


# PHADDD: horizontal pairwise add (a0+a1, a2+a3, b0+b1, b2+b3)
def _phaddd(I, ins, args, cond):
    a, b = args
    out = []
    for src in (a, b):
        for i in range(0, src[1] // 32, 2):
            out.append(T.nary("add", 32, [T.slice_(src, i * 32, 32), T.slice_(src, (i + 1) * 32, 32)]))
    return T.concat(out)


TABLE["llvm.x86.ssse3.phadd.d.128"] = _phaddd
