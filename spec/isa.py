"""x86 intrinsic table: one entry per intrinsic that survives -O2 and can be
the primitive of an accepted form or appear in a footprint.  Each entry maps
the call to the term that denotes its SDM meaning (lane map included).  An
intrinsic without an entry stays opaque => UNDECIDED, never a guess."""
import term as T

TABLE = {}


def entry(*names):
    def d(f):
        for n in names:
            TABLE[n] = f
        return f
    return d


def _ptest(kind):
    def h(I, ins, args, cond):
        a, b = args
        w = a[1]
        if kind == "z":
            c = T.icmp("eq", T.and_(a, b), T.const(w, 0))
        elif kind == "c":
            c = T.icmp("eq", T.and_(T.not_(a), b), T.const(w, 0))
        else:
            c = T.and_(T.icmp("ne", T.and_(a, b), T.const(w, 0)),
                       T.icmp("ne", T.and_(T.not_(a), b), T.const(w, 0)))
        return T.zext(c, 32)
    return h


# SDM PTEST: ZF = ((SRC AND DEST) == 0), CF = ((SRC AND NOT DEST) == 0)
for _p in ("llvm.x86.sse41.ptest", "llvm.x86.avx.ptest"):
    for _k in ("z", "c", "nzc"):
        TABLE[_p + _k] = _ptest(_k)
        TABLE[_p + _k + ".256"] = _ptest(_k)


def _blendv(eb):
    # SDM (V)BLENDVPS/PD, PBLENDVB: IF mask[i].msb THEN src2[i] ELSE src1[i]
    def h(I, ins, args, cond):
        a, b, m = args
        n = a[1] // eb
        return T.concat([T.select(T.slice_(m, i * eb + eb - 1, 1), T.slice_(b, i * eb, eb), T.slice_(a, i * eb, eb))
                         for i in range(n)])
    return h


TABLE["llvm.x86.sse41.blendvps"] = _blendv(32)
TABLE["llvm.x86.sse41.blendvpd"] = _blendv(64)
TABLE["llvm.x86.sse41.pblendvb"] = _blendv(8)
TABLE["llvm.x86.avx.blendv.ps.256"] = _blendv(32)
TABLE["llvm.x86.avx.blendv.pd.256"] = _blendv(64)
TABLE["llvm.x86.avx2.pblendvb"] = _blendv(8)
