"""x86 intrinsic table: one entry per intrinsic that survives -O2 and can be
the primitive of an accepted form or appear in a footprint.  Each entry maps
the call to the term that denotes its SDM meaning (lane map included).  An
intrinsic without an entry stays opaque => UNDECIDED, never a guess."""
import term as T

TABLE = {}


def entry(*names):
    def d(f):
        for n in names:
            TABLE[n] = f
        return f
    return d
