"""Decision procedure for predicates over one IEEE lane that touch the value
only through field-aligned atoms.

A lane term qualifies when the lane's bits occur only inside comparison atoms
(icmp / fcmp / vfpclass) whose non-constant operand is one of: the whole
pattern, the pattern without its sign (abs, or shifted left by one), the
exponent field, the mantissa field, the sign bit.  Each such atom is constant
on every cell of the partition  sign x exponent value x mantissa interval,
where the mantissa intervals are delimited by the mantissa parts of the
constants that occur (plus 0, 1, the quiet bit and the maximum).  Evaluating
the closed form on one representative per cell (and on the breakpoints and
their neighbours) is therefore exhaustive.  The program is never run: the
*closed form* is evaluated."""
import math
import struct

import term as T


def fields(eb):
    return (23, 8) if eb == 32 else (52, 11)


class NotInFragment(Exception):
    pass


def _is_x_slice(t, k, base, eb):
    """t is bits [lo,hi) of the lane (argument k, lane base)"""
    if t[0] == "arg" and t[2] == k and base <= t[3] and t[3] + t[1] <= base + eb:
        return t[3] - base, t[3] - base + t[1]
    return None


def _classify_operand(g, k, base, eb):
    """-> (kind, shift) for whitelisted shapes, else raise"""
    mb, xb = fields(eb)
    parts = list(g[2:]) if g[0] == "concat" else [g]
    # drop constant-zero padding on either side, remember low padding
    lowpad = 0
    while parts and parts[0][0] == "const" and parts[0][2] == 0:
        lowpad += parts[0][1]
        parts = parts[1:]
    while parts and parts[-1][0] == "const" and parts[-1][2] == 0:
        parts = parts[:-1]
    if len(parts) != 1:
        raise NotInFragment("operand %s" % T.show(g, 3))
    sl = _is_x_slice(parts[0], k, base, eb)
    if sl is None:
        raise NotInFragment("operand %s" % T.show(g, 3))
    lo, hi = sl
    if (lo, hi) == (0, eb):
        kind = "whole"
    elif (lo, hi) == (0, eb - 1):
        kind = "abs"
    elif (lo, hi) == (mb, eb - 1):
        kind = "exp"
    elif (lo, hi) == (0, mb):
        kind = "man"
    elif (lo, hi) == (eb - 1, eb):
        kind = "sign"
    elif (lo, hi) == (mb, eb):
        kind = "signexp"
    else:
        raise NotInFragment("slice [%d,%d) of the lane is not field aligned" % (lo, hi))
    return kind, lowpad - lo      # value = field << (lowpad) ; relative shift of pattern bits


def collect(t, k, base, eb, consts, seen):
    """walk t; x may only occur inside whitelisted atoms; collect constants"""
    if id(t) in seen:
        return
    seen.add(id(t))
    op = t[0]
    if op == "const" or op == "undef":
        return
    if op == "arg":
        if t[2] == k and not (t[3] + t[1] <= base or t[3] >= base + eb):
            # raw lane bits outside an atom: allowed only as the sign bit (a field)
            sl = _is_x_slice(t, k, base, eb)
            if sl == (eb - 1, eb):
                return
            raise NotInFragment("lane bits used outside a comparison atom: %s" % T.show(t, 2))
        return
    if op in ("icmp", "fcmp"):
        a, b = t[3], t[4]
        for x, y in ((a, b), (b, a)):
            if y[0] == "const":
                if x[0] == "add" and op == "icmp":
                    # range-check idiom  (G + k) cmp c  (mod 2^w): breakpoints at -k and c-k
                    cs = [z for z in x[2:] if z[0] == "const"]
                    rest = [z for z in x[2:] if z[0] != "const"]
                    if len(cs) == 1 and len(rest) == 1:
                        kind, sh = _classify_operand(rest[0], k, base, eb)
                        Mw = (1 << x[1]) - 1
                        kk = cs[0][2]
                        for cc in ((-kk) & Mw, (y[2] - kk) & Mw, (y[2] - kk + 1) & Mw, (y[2] - kk - 1) & Mw):
                            consts.append((kind, sh, cc, x[1]))
                        return
                kind, sh = _classify_operand(x, k, base, eb)
                consts.append((kind, sh, y[2], y[1]))
                return
        if a is b:
            _classify_operand(a, k, base, eb)
            return
        raise NotInFragment("comparison of two non-constant operands")
    if op == "x86.fpclass":
        kind, sh = _classify_operand(t[2], k, base, eb)
        if kind != "whole":
            raise NotInFragment("fpclass of a partial pattern")
        return
    if op in ("not", "and", "or", "xor", "select", "rep", "concat", "slice", "add", "sub", "neg", "popsum", "mul"):
        for y in t[2:]:
            if isinstance(y, tuple):
                collect(y, k, base, eb, consts, seen)
        return
    raise NotInFragment("operator %s" % op)


def representatives(eb, consts):
    mb, xb = fields(eb)
    MM = (1 << mb) - 1
    bm = {0, 1, 2, MM, MM - 1, 1 << (mb - 1), (1 << (mb - 1)) - 1, (1 << (mb - 1)) + 1, MM >> 1}
    for kind, sh, c, w in consts:
        vals = [c]
        if sh > 0:
            vals.append(c >> sh)
        if sh < 0:
            vals.append(c << -sh)
        for v in vals:
            for d in (-1, 0, 1):
                bm.add((v + d) & MM)
                bm.add(((v >> 1) + d) & MM)
    bm = sorted(bm)
    for s in (0, 1):
        for e in range(1 << xb):
            for m in bm:
                yield (s << (eb - 1)) | (e << mb) | m


def libm_class(v, eb):
    """(fpclassify glibc value, isnan, isinf, isfinite, isnormal, signbit)"""
    mb, xb = fields(eb)
    s = v >> (eb - 1)
    e = (v >> mb) & ((1 << xb) - 1)
    m = v & ((1 << mb) - 1)
    if e == (1 << xb) - 1:
        cls = 0 if m else 1          # FP_NAN=0 FP_INFINITE=1
    elif e == 0:
        cls = 3 if m else 2          # FP_SUBNORMAL=3 FP_ZERO=2
    else:
        cls = 4                      # FP_NORMAL
    return {"fpclassify": cls, "isnan": int(cls == 0), "isinf": int(cls == 1), "isfinite": int(cls >= 2),
            "isnormal": int(cls == 4), "signbit": s}


def decide(lane_term, k, base, eb, fn, result_bits):
    """returns ('HOLDS', n_points) | ('REFUTED', witness) | ('UNDECIDED', reason)"""
    consts = []
    try:
        collect(lane_term, k, base, eb, consts, set())
    except NotInFragment as e:
        return "UNDECIDED", "outside the field-aligned fragment: %s" % e
    n = 0
    M = (1 << result_bits) - 1
    for v in representatives(eb, consts):
        env = {"args": [0] * (k + 1)}
        env["args"][k] = v << base
        try:
            got = T.ev(lane_term, env)
        except T.Uneval as e:
            return "UNDECIDED", "closed form not evaluable: %s" % e
        want = libm_class(v, eb)[fn]
        if result_bits > 1 and fn != "fpclassify":
            want = M if want else 0
        if got != (want & M):
            return "REFUTED", {"lane_bits": hex(v), "got": hex(got), "expected": hex(want & M), "function": fn}
        n += 1
    return "HOLDS", n


# ---------------------------------------------------------------------------
# General segment partition (fallback when atoms are not aligned with the IEEE fields, e.g. 64-bit
# compares assembled from 32-bit halves).
#
# Fragment: the lane's bits occur only as single raw bits, or inside atoms  icmp pred (X, C)  /
# icmp pred ((X + K) mod 2^w, C)  with X = zero padding ++ lane[lo,hi) ++ zero padding and C, K constants.
# Cut the lane into elementary segments at every atom boundary (and at the sign / exponent / mantissa
# boundaries the reference classification uses, and below the top bit of signed atoms).  An atom compares
# lexicographically, so its value is a function of, per covered segment, whether the segment is below,
# equal to or above the matching piece of each constant.  Representatives per segment: every piece (and
# its neighbours) and one value inside every gap between consecutive pieces; segments of <= 6 bits are
# enumerated.  The product of the representatives hits every realisable combination of trichotomies, so
# evaluating both closed forms on it is exhaustive for this fragment.

def _atom_shape(g, k, base, eb):
    """g = pad ++ lane[lo,hi) ++ pad  ->  (lo, hi, lowpad) else raise"""
    parts = list(g[2:]) if g[0] == "concat" else [g]
    lowpad = 0
    while parts and parts[0][0] == "const" and parts[0][2] == 0:
        lowpad += parts[0][1]
        parts = parts[1:]
    while parts and parts[-1][0] == "const" and parts[-1][2] == 0:
        parts = parts[:-1]
    if len(parts) != 1:
        raise NotInFragment("operand %s" % T.show(g, 3))
    sl = _is_x_slice(parts[0], k, base, eb)
    if sl is None:
        raise NotInFragment("operand %s" % T.show(g, 3))
    return sl[0], sl[1], lowpad


def _collect_general(t, k, base, eb, atoms, rawbits, seen):
    if id(t) in seen:
        return
    seen.add(id(t))
    op = t[0]
    if op in ("const", "undef"):
        return
    if op == "arg":
        if t[2] == k and not (t[3] + t[1] <= base or t[3] >= base + eb):
            sl = _is_x_slice(t, k, base, eb)
            if sl is not None and sl[1] - sl[0] == 1:
                rawbits.add(sl[0])
                return
            raise NotInFragment("lane bits used outside a comparison atom: %s" % T.show(t, 2))
        return
    if op == "icmp":
        pred, a, b = t[2], t[3], t[4]
        for x, y in ((a, b), (b, a)):
            if y[0] != "const":
                continue
            signed = pred in ("slt", "sle", "sgt", "sge")
            if x[0] == "add":
                cs = [z for z in x[2:] if z[0] == "const"]
                rest = [z for z in x[2:] if z[0] != "const"]
                if len(cs) == 1 and len(rest) == 1:
                    lo, hi, pad = _atom_shape(rest[0], k, base, eb)
                    Mw = (1 << x[1]) - 1
                    kk = cs[0][2]
                    S = (1 << (x[1] - 1)) if signed else 0
                    cc = [(-kk) & Mw, (y[2] - kk) & Mw, (y[2] - kk + 1) & Mw, (y[2] - kk - 1) & Mw,
                          (S - kk) & Mw, (S - kk - 1) & Mw]
                    atoms.append((lo, hi, pad, cc, False))
                    return
                raise NotInFragment("arithmetic inside a comparison")
            lo, hi, pad = _atom_shape(x, k, base, eb)
            atoms.append((lo, hi, pad, [y[2]], signed and pad + (hi - lo) == x[1]))
            return
        raise NotInFragment("comparison of two non-constant operands")
    if op in ("not", "and", "or", "xor", "select", "rep", "concat", "slice", "popsum"):
        for y in t[2:]:
            if isinstance(y, tuple):
                _collect_general(y, k, base, eb, atoms, rawbits, seen)
        return
    raise NotInFragment("operator %s" % op)


def decide_general(lane_term, k, base, eb, fn, result_bits, max_cells=400000):
    import itertools
    mb, xb = fields(eb)
    atoms, rawbits = [], set()
    try:
        _collect_general(lane_term, k, base, eb, atoms, rawbits, set())
    except NotInFragment as e:
        return "UNDECIDED", "outside the comparison-atom fragment: %s" % e
    bounds = {0, mb, eb - 1, eb}
    for lo, hi, pad, cs, signed in atoms:
        bounds.update((lo, hi))
        if signed and hi - lo > 1:
            bounds.add(hi - 1)
    for p in rawbits:
        bounds.update((p, p + 1))
    bl = sorted(bounds)
    segs = list(zip(bl[:-1], bl[1:]))
    reps = []
    for s0, s1 in segs:
        w = s1 - s0
        SM = (1 << w) - 1
        if w <= 6:
            reps.append(list(range(1 << w)))
            continue
        cuts = {0, 1, SM, SM - 1, 1 << (w - 1), (1 << (w - 1)) - 1}
        for lo, hi, pad, cs, signed in atoms:
            if lo < s1 and s0 < hi:
                for c in cs:
                    for c2 in ((c >> pad), (c >> pad) + (1 if pad and c & ((1 << pad) - 1) else 0)):
                        if c2 >> (hi - lo):
                            # constant above the slice's range: every slice value is below it
                            continue
                        piece = (c2 >> (s0 - lo)) & SM
                        cuts.update(((piece - 1) & SM, piece, (piece + 1) & SM))
        cl = sorted(cuts)
        vals = set(cl)
        for a_, b_ in zip(cl[:-1], cl[1:]):
            if b_ - a_ > 1:
                vals.add((a_ + b_) // 2)
        reps.append(sorted(vals))
    cells = 1
    for r in reps:
        cells *= len(r)
    if cells > max_cells:
        return "UNDECIDED", "segment partition too large (%d cells over %d segments)" % (cells, len(segs))
    n = 0
    M = (1 << result_bits) - 1
    for combo in itertools.product(*reps):
        v = 0
        for (s0, s1), x in zip(segs, combo):
            v |= x << s0
        env = {"args": [0] * (k + 1)}
        env["args"][k] = v << base
        try:
            got = T.ev(lane_term, env)
        except T.Uneval as e:
            return "UNDECIDED", "closed form not evaluable: %s" % e
        want = libm_class(v, eb)[fn]
        if result_bits > 1 and fn != "fpclassify":
            want = M if want else 0
        if got != (want & M):
            return "REFUTED", {"lane_bits": hex(v), "got": hex(got), "expected": hex(want & M), "function": fn}
        n += 1
    return "HOLDS", n


_decide_aligned = decide


def decide(lane_term, k, base, eb, fn, result_bits):
    v, info = _decide_aligned(lane_term, k, base, eb, fn, result_bits)
    if v == "UNDECIDED" and isinstance(info, str) and info.startswith("outside the field-aligned fragment"):
        v2, info2 = decide_general(lane_term, k, base, eb, fn, result_bits)
        if v2 != "UNDECIDED":
            return v2, info2
        return v, "%s; %s" % (info, info2)
    return v, info
