"""Judges for the memory operations (C08 value / C09 footprint).

Both work on the access list and the returned closed form that irterm
computed for the wrapper: byte provenance (value) and byte footprint
(which addresses may be touched, fault-suppressed or not)."""
import term as T
import lanecheck
from common import HOLDS, REFUTED, UNDECIDED


def _is_global(base):
    return base[0] == "global" or (base[0] == "add" and any(x[0] == "global" for x in base[2:]))


def _opaque_effects(S):
    bad = S.flags & {"unknown-effect", "call", "asm", "indirect-call", "loop", "memcpy-var", "memset-var",
                     "fence", "atomicrmw", "cmpxchg", "invoke"}
    return sorted(bad)


def _true(c):
    return c[0] == "const" and c[2] == 1


def _poison(ctx, S):
    """the summary is undefined (poison) for this concrete n"""
    ts = [S.ret] if S.ret is not None else []
    for a in S.accesses:
        ts.append(a.cond)
        if a.value is not None:
            ts.append(a.value)
    for t in ts:
        if T.contains_op(t, ("poison",)):
            return True
    return False


def _align_ok(ctx, inst, S):
    """the unaligned forms (load/store) must not claim more than the element's alignment"""
    if inst.op.startswith("aligned_") or inst.op in ("from_array", "to_array"):
        return None
    es = ctx.vt.eb // 8
    p = ctx.args.get("p")
    for a in S.accesses:
        if a.base is p and a.align and a.align > es and a.what in ("load", "store"):
            return "%s claims align %d on an address that is only %d-byte aligned (p+%d)" % (
                a.what, a.align, es, a.off)
    return None


def judge_load_value(ctx, inst, S):
    rule = "returned byte j == memory byte p+j for j < min(n,width)*size, 0 elsewhere"
    if _poison(ctx, S):
        return REFUTED, "result is undefined (poison) for this element count", rule, {
            "n": inst.param, "note": "shift by >= width while computing the lane mask"}
    al = _align_ok(ctx, inst, S)
    if al:
        return REFUTED, al, rule, {"n": inst.param, "note": "call with p = aligned_base + one element"}
    bad = _opaque_effects(S)
    if bad:
        return UNDECIDED, "unmodelled effects %s %s" % (bad, sorted(set(S.unknown))[:3]), rule, None
    expected = inst.expect(ctx)
    v, detail, wit = lanecheck.compare(S.ret, expected, S, ctx.argspecs, ctx.names, ctx.vt.eb, pure=False)
    return v, detail, rule, wit


judge_gather_value = judge_load_value


def _bytemap(ctx, S, allowed_local=True):
    """program-order byte map of the stores: key (id(base), off) -> (base, off, cond, byte term)"""
    m = {}
    order = []
    for a in S.accesses:
        if a.kind != "w":
            continue
        if a.base[0] == "alloca":
            continue
        if a.size is None or a.value is None:
            return None, "store of unknown size/value (%s)" % a.what
        for j in range(a.size):
            k = (id(a.base), a.off + j)
            bt = T.slice_(a.value, 8 * j, 8) if a.value[1] >= 8 * (j + 1) else None
            if k in m and not _true(a.cond):
                return None, "conditional overwrite"
            if k not in m:
                order.append(k)
            m[k] = (a.base, a.off + j, a.cond, bt)
    return (m, order), None


def judge_store_value(n):
    def j(ctx, inst, S):
        vt = ctx.vt
        rule = "bytes written == byte j of v at p+j for j < min(n,width)*size, nothing else"
        if _poison(ctx, S):
            return REFUTED, "stored bytes are undefined (poison) for this element count", rule, {
                "n": n, "note": "shift by >= width while computing the lane mask"}
        al = _align_ok(ctx, inst, S)
        if al:
            return REFUTED, al, rule, {"n": n, "note": "call with p = aligned_base + one element"}
        bad = _opaque_effects(S)
        if bad:
            return UNDECIDED, "unmodelled effects %s %s" % (bad, sorted(set(S.unknown))[:3]), rule, None
        bm, err = _bytemap(ctx, S)
        if bm is None:
            return UNDECIDED, err, rule, None
        m, order = bm
        p = ctx.args["p"]
        a = ctx.args["a"]
        nbytes = min(n, vt.n) * vt.eb // 8
        seen = set()
        for k in order:
            base, off, cond, bt = m[k]
            if not _true(cond):
                return UNDECIDED, "conditional store cond=%s" % T.show(cond, 3, ctx.names), rule, None
            if base is not p:
                return REFUTED, "writes through %s%+d" % (T.show(base, 3, ctx.names), off), rule, {
                    "note": "store to an address not derived from p+constant"}
            if not (0 <= off < nbytes):
                return REFUTED, "writes byte p%+d (n=%d, %d bytes requested)" % (off, n, nbytes), rule, {
                    "n": n, "byte_offset": off}
            if not _true(cond):
                return UNDECIDED, "conditional store cond=%s" % T.show(cond, 3, ctx.names), rule, None
            want = T.slice_(a, 8 * off, 8)
            if bt is not want:
                if bt is not None and lanecheck.interpreted(bt) and lanecheck.interpreted(want):
                    w = lanecheck.find_witness(bt, want, ctx.argspecs, ctx.names)
                    if w is not None:
                        w["byte_offset"] = off
                        return REFUTED, "byte p+%d holds %s" % (off, T.show(bt, 4, ctx.names)), rule, w
                return UNDECIDED, "byte p+%d holds %s" % (off, T.show(bt, 4, ctx.names) if bt else "?"), rule, None
            seen.add(off)
        if len(seen) != nbytes:
            missing = [o for o in range(nbytes) if o not in seen]
            return REFUTED, "byte(s) p+%s never written (n=%d)" % (missing[:6], n), rule, {
                "n": n, "unwritten_offsets": missing[:16]}
        return HOLDS, "%d byte(s) of v stored at p+0..%d" % (nbytes, nbytes - 1), rule, None
    return j


def _footprint(ctx, S, nbytes, n, what, ptr="p"):
    """every access through p must lie inside [0, nbytes)"""
    p = ctx.args[ptr]
    vt = ctx.vt
    rule = ("%s n=%d: every access (architectural footprint incl. non-suppressed masked stores) "
            "lies inside [p, p+%d)" % (what, n, nbytes))
    bad = _opaque_effects(S)
    if bad:
        return UNDECIDED, "unmodelled effects %s %s" % (bad, sorted(set(S.unknown))[:3]), rule, None
    cnt = 0
    for a in S.accesses:
        if not (_is_global(a.base) or a.base[0] == "alloca") and T.contains_op(a.cond, ("poison", "undef")):
            return REFUTED, "the condition (lane mask) of the access via %s is undefined for this element count: %s" % (
                a.what, T.show(a.cond, 3, ctx.names)), rule, {
                    "n": n, "note": "shift by >= width (or similar) while computing the lane mask: which bytes are "
                                    "touched is unconstrained"}
    for a in S.accesses:
        if _is_global(a.base) or a.base[0] == "alloca":
            continue
        if a.base is not p:
            if a.base[0] == "arg" and a.base[2] != p[2]:
                continue        # other pointer arguments (out-parameters of the wrapper)
            return UNDECIDED, "access through %s" % T.show(a.base, 3, ctx.names), rule, None
        if a.size is None:
            return UNDECIDED, "access of unknown size (%s)" % a.what, rule, None
        cnt += 1
        lo, hi = a.off, a.off + a.size
        if lo < 0 or hi > nbytes:
            kind = {"r": "reads", "w": "writes", "wf": "may fault on"}[a.kind]
            det = "%s %s bytes [p%+d, p%+d) via %s%s" % (
                kind, a.size, lo, hi, a.what, "" if _true(a.cond) else " under " + T.show(a.cond, 3, ctx.names))
            if not _true(a.cond):
                return UNDECIDED, det, rule, None
            return REFUTED, det, rule, {"n": n, "requested_bytes": nbytes, "access": [lo, hi], "via": a.what,
                                        "note": "place the buffer flush against an inaccessible page"}
    if nbytes == 0 and cnt:
        return REFUTED, "n=0 but memory is accessed", rule, {"n": 0}
    return HOLDS, "%d access(es), all inside [p, p+%d)" % (cnt, nbytes), rule, None


def judge_footprint_load(n):
    def j(ctx, inst, S):
        vt = ctx.vt
        return _footprint(ctx, S, min(n, vt.n) * vt.eb // 8, n, "load")
    return j


def judge_footprint_store(n):
    def j(ctx, inst, S):
        vt = ctx.vt
        return _footprint(ctx, S, min(n, vt.n) * vt.eb // 8, n, "store")
    return j


def _lane_addrs(ctx, n):
    import ops
    vt = ctx.vt
    out = {}
    for i in range(vt.n):
        addr = T.add(ctx.args["p"], T.mul(ops.idx_lane(ctx, i), T.const(64, vt.eb // 8)))
        base, off = ops.split_addr_(addr)
        out[(id(base), off)] = i
    return out


def _gs_footprint(ctx, S, n, what):
    vt = ctx.vt
    m = min(n, vt.n)
    rule = ("%s n=%d: only the elements p[idx[i]] of active lanes i<n are accessed; "
            "index widening is sign extension" % (what, n))
    bad = _opaque_effects(S)
    if bad:
        return UNDECIDED, "unmodelled effects %s %s" % (bad, sorted(set(S.unknown))[:3]), rule, None
    lanes = _lane_addrs(ctx, n)
    es = vt.eb // 8
    cnt = 0
    for a in S.accesses:
        if not (_is_global(a.base) or a.base[0] == "alloca") and T.contains_op(a.cond, ("poison", "undef")):
            return REFUTED, "the condition (lane mask) of the access via %s is undefined for this element count: %s" % (
                a.what, T.show(a.cond, 3, ctx.names)), rule, {"n": n}
    for a in S.accesses:
        if _is_global(a.base) or a.base[0] == "alloca":
            continue
        if a.size is None:
            return UNDECIDED, "access of unknown size", rule, None
        k = (id(a.base), a.off)
        if k not in lanes or a.size != es:
            # inside some lane's element?
            hit = None
            for (b, o), i in lanes.items():
                if b == id(a.base) and o <= a.off and a.off + a.size <= o + es:
                    hit = i
            if hit is None:
                if not _true(a.cond):
                    # a conditional access at a computed address (e.g. a contiguous fast path): it is fine iff its
                    # condition implies that the address is one of the active lanes' element addresses - decided on
                    # ROBDDs: is  cond and (address differs from every allowed address)  satisfiable?
                    v_, w_ = _cond_addr_ok(ctx, a, m, es)
                    if v_ == "ok":
                        cnt += 1
                        continue
                    if v_ == "bad":
                        return REFUTED, ("%s %d byte(s) at %s%+d under a condition that does not confine the address to the "
                                         "elements of the %d active lane(s)" % ("reads" if a.kind == "r" else "writes", a.size,
                                                                               T.show(a.base, 3, ctx.names), a.off, m)), rule, w_
                    return UNDECIDED, "conditional access at %s%+d (%s)" % (T.show(a.base, 3, ctx.names), a.off, w_), rule, None
                return REFUTED, "%s %d byte(s) at %s%+d, not an element addressed by a lane index" % (
                    "reads" if a.kind == "r" else "writes", a.size, T.show(a.base, 4, ctx.names), a.off), rule, {
                        "n": n, "note": "e.g. a negative 32-bit index if the widening is a zero extension"}
            lane = hit
        else:
            lane = lanes[k]
        cnt += 1
        if lane >= m:
            if not _true(a.cond):
                return UNDECIDED, "conditional access for inactive lane %d" % lane, rule, None
            return REFUTED, "%s p[idx[%d]] although only %d lane(s) are active" % (
                "reads" if a.kind == "r" else "writes", lane, m), rule, {
                    "n": n, "inactive_lane": lane, "note": "put a wild index in that lane"}
    return HOLDS, "%d element access(es), all for active lanes" % cnt, rule, None


def _cond_addr_ok(ctx, a, m, es):
    """('ok', None) | ('bad', witness) | (None, reason) for one conditional access of a gather / scatter"""
    import bdd
    import ops
    vt = ctx.vt
    addr = T.add(a.base, T.const(64, a.off & ((1 << 64) - 1)))
    size = a.size or es
    lane_addr = [T.add(ctx.args["p"], T.mul(ops.idx_lane(ctx, i), T.const(64, vt.eb // 8))) for i in range(m)]
    # an access of k elements is judged element by element (a contiguous fast path for consecutive indices)
    chunks = [(j * es, es) for j in range(size // es)] if size >= es and size % es == 0 else [(0, size)]
    v, info, q = "UNSAT", None, None
    for coff, csz in chunks:
        ca = T.add(addr, T.const(64, coff))
        neq_all = T.const(1, 1)
        for li in lane_addr:
            inside = T.const(1, 0)
            for d in range(0, es - csz + 1):
                inside = T.or_(inside, T.icmp("eq", ca, T.add(li, T.const(64, d))))
            neq_all = T.and_(neq_all, T.not_(inside))
        q = T.and_(a.cond, neq_all)
        try:
            v, info = bdd.satisfy(q, ctx.argspecs, max_nodes=3000000)
        except T.TooBig:
            return None, "budget"
        if v != "UNSAT":
            break
    if v == "UNSAT":
        return "ok", None
    if v == "SAT":
        args = [info.get(k, 0) for k in range(len(ctx.argspecs))]
        try:
            if T.ev(q, {"args": args}) == 1:
                return "bad", {"args": {ctx.names[k]: hex(x) for k, x in enumerate(args) if k < len(ctx.names)},
                               "note": "on this input the condition holds and the access is at none of the active lanes' elements"}
        except T.Uneval:
            pass
        return None, "BDD witness not confirmed by the evaluator"
    return None, info


def judge_footprint_gather(n):
    return lambda ctx, inst, S: _gs_footprint(ctx, S, n, "gather")


def judge_footprint_scatter(n):
    return lambda ctx, inst, S: _gs_footprint(ctx, S, n, "scatter")


def _scatter_paths(ctx, S, m, es, rule, n):
    """scatter with conditional stores or stores at computed addresses (a contiguous fast path next to the
    general one): decided on ROBDDs.  (i) every stored element lands, whenever its store executes, on the element
    address of some active lane; (ii) for every active lane i and every input, some executed store puts exactly
    v[i] at p[idx[i]]."""
    import bdd
    import ops
    vt = ctx.vt
    eb = vt.eb
    chunks = []
    for a in S.accesses:
        if a.kind != "w" or a.base[0] == "alloca":
            continue
        if a.value is None or not a.size or a.size % es:
            return UNDECIDED, "store of size %s at %s%+d" % (a.size, T.show(a.base, 3, ctx.names), a.off), rule, None
        addr = T.add(a.base, T.const(64, a.off & ((1 << 64) - 1)))
        for j_ in range(a.size // es):
            chunks.append((a.cond, T.add(addr, T.const(64, j_ * es)), T.slice_(a.value, j_ * eb, eb)))
    lane_addr = [T.add(ctx.args["p"], T.mul(ops.idx_lane(ctx, i), T.const(64, es))) for i in range(m)]

    def ask(q, what):
        try:
            v, info = bdd.satisfy(q, ctx.argspecs, max_nodes=3000000)
        except T.TooBig:
            return UNDECIDED, "budget", None
        if v == "UNSAT":
            return None
        if v == "SAT":
            args = [info.get(k, 0) for k in range(len(ctx.argspecs))]
            try:
                if T.ev(q, {"args": args}) == 1:
                    return REFUTED, what, {"args": {ctx.names[k]: hex(x) for k, x in enumerate(args) if k < len(ctx.names)}, "n": n}
            except T.Uneval:
                pass
            return UNDECIDED, "BDD witness not confirmed by the evaluator", None
        return UNDECIDED, "%s" % info, None
    for cond, addr, val in chunks:
        allowed = T.const(1, 0)
        for la in lane_addr:
            allowed = T.or_(allowed, T.icmp("eq", addr, la))
        r = ask(T.and_(cond, T.not_(allowed)), "a store executes at %s, which is no active lane's element" % T.show(addr, 3, ctx.names))
        if r is not None:
            return r[0], r[1], rule, r[2]
    for i, la in enumerate(lane_addr):
        want = T.slice_(ctx.args["a"], i * eb, eb)
        cov = T.const(1, 0)
        for cond, addr, val in chunks:
            cov = T.or_(cov, T.and_(cond, T.and_(T.icmp("eq", addr, la), T.icmp("eq", val, want))))
        r = ask(T.not_(cov), "no executed store puts element %d of v at p[idx[%d]]" % (i, i))
        if r is not None:
            return r[0], r[1], rule, r[2]
    return HOLDS, ("%d store element(s) on %d lane(s): each lands on an active lane's element whenever it executes, and every active "
                   "lane receives its own element on every input (ROBDD implications)" % (len(chunks), m)), rule, None


def judge_scatter_value(n):
    def j(ctx, inst, S):
        vt = ctx.vt
        m = min(n, vt.n)
        rule = "scatter n=%d: element i of v is written to p[idx[i]] for i<n, nothing else" % n
        bad = _opaque_effects(S)
        if bad:
            return UNDECIDED, "unmodelled effects %s %s" % (bad, sorted(set(S.unknown))[:3]), rule, None
        lanes = _lane_addrs(ctx, n)
        es = vt.eb // 8
        written = set()
        for a in S.accesses:
            if a.kind != "w" or a.base[0] == "alloca":
                continue
            k = (id(a.base), a.off)
            if k not in lanes or a.size != es or a.value is None or not _true(a.cond):
                return _scatter_paths(ctx, S, m, es, rule, n)
            lane = lanes[k]
            if lane >= m:
                return REFUTED, "writes p[idx[%d]] although only %d lane(s) are active" % (lane, m), rule, {"n": n}
            if not _true(a.cond):
                return UNDECIDED, "conditional store", rule, None
            want = T.slice_(ctx.args["a"], lane * vt.eb, vt.eb)
            if a.value is not want:
                if lanecheck.interpreted(a.value):
                    w = lanecheck.find_witness(a.value, want, ctx.argspecs, ctx.names)
                    if w is not None:
                        return REFUTED, "p[idx[%d]] receives %s" % (lane, T.show(a.value, 4, ctx.names)), rule, w
                return UNDECIDED, "p[idx[%d]] receives %s" % (lane, T.show(a.value, 4, ctx.names)), rule, None
            written.add(lane)
        if written != set(range(m)):
            return REFUTED, "lane(s) %s never stored" % sorted(set(range(m)) - written)[:8], rule, {"n": n}
        return HOLDS, "%d lane(s) stored to their own p[idx[i]]" % m, rule, None
    return j
