"""Operation catalogue: for every public operation named in docs/*.md and in
the property statements, the wrapper that instantiates it and the closed form
the property demands.  One Inst = one obligation.

Expectation functions build terms with the same smart constructors the IR
interpreter uses, so "accepted normal forms" are semantic (LangRef / SDM
meaning of the lane operation), never source text.
"""
import term as T


class Inst:
    def __init__(self, op, args, ret, body, expect=None, param=None, pre="", judge=None,
                 note=None, lanewise=True, pure=True, tmpl=""):
        self.op = op
        self.args = args          # [(kind, name)]
        self.ret = ret
        self.body = body
        self.pre = pre
        self.expect = expect
        self.param = param
        self.judge = judge
        self.note = note
        self.lanewise = lanewise  # result lane i may depend on lane i of the vector args only
        self.pure = pure
        self.fname = "w_%s%s" % (op, ("_%s" % param) if param is not None else "")

    def key(self, cfg, vt):
        k = {"cfg": cfg.name, "type": vt.name, "op": self.op}
        if self.param is not None:
            k["param"] = self.param
        return k


PARAM = {"V": "VP p%s", "M": "MP p%s", "S": "S %s", "LL": "long long %s", "B": "bool %s",
         "U32": "std::uint32_t %s", "CP": "const S* %s", "P": "S* %s", "VI": "IVP p%s",
         "V2": "VP2 p%s", "M2": "MP2 p%s", "I32": "std::int32_t %s", "I64": "std::int64_t %s"}
LOCAL = {"V": "V %s{p%s};", "M": "M %s{p%s};", "VI": "IV %s{p%s};", "V2": "V2 %s{p%s};",
         "M2": "M2 %s{p%s};"}
RET = {"V": "VP", "M": "MP", "S": "S", "B": "bool", "U32": "std::uint32_t", "void": "void",
       "V2": "VP2", "M2": "MP2", "I32": "std::int32_t", "I64": "std::int64_t", "US": "US"}


def wrapper_line(inst):
    ps = ", ".join(PARAM[k] % n for k, n in inst.args)
    loc = " ".join(LOCAL[k] % (n, n) for k, n in inst.args if k in LOCAL)
    if inst.ret == "void":
        body = "%s %s;" % (inst.pre, inst.body)
    elif inst.ret in ("V", "M", "V2", "M2"):
        body = "%s return avel::decay(%s);" % (inst.pre, inst.body)
    else:
        body = "%s return %s;" % (inst.pre, inst.body)
    return 'extern "C" %s %s(%s) { %s %s }' % (RET[inst.ret], inst.fname, ps, loc, body)


def header(vt, extra=()):
    h = ["#include <avel/Avel.hpp>",
         "typedef avel::%s V; typedef V::mask M; typedef V::scalar S; typedef V::primitive VP; "
         "typedef M::primitive MP;" % vt.name,
         "typedef std::make_unsigned<std::conditional<std::is_integral<S>::value, S, int>::type>::type US;"]
    h += list(extra)
    return h


# ---------------------------------------------------------------------------
# helpers

def lanewise2(f):
    def e(c):
        return c.pack([f(c, x, y) for x, y in zip(c.lanes("a"), c.lanes("b"))])
    return e


def lanewise1(f):
    def e(c):
        return c.pack([f(c, x) for x in c.lanes("a")])
    return e


def cmpmask(pred_of):
    def e(c):
        p = pred_of(c)
        if c.vt.is_float:
            return c.pack_mask([T.fcmp(p, x, y) for x, y in zip(c.lanes("a"), c.lanes("b"))])
        return c.pack_mask([T.icmp(p, x, y) for x, y in zip(c.lanes("a"), c.lanes("b"))])
    return e


VV = [("V", "a"), ("V", "b")]


# ---------------------------------------------------------------------------
# C01 integer arithmetic

def fam_intarith(vt, cfg):
    if not vt.is_int:
        return []
    one = lambda c: T.const(c.vt.eb, 1)
    I = []
    for nm, sym, f in (("add", "+", T.add), ("sub", "-", T.sub), ("mul", "*", T.mul)):
        I.append(Inst(nm, VV, "V", "a %s b" % sym, lanewise2(lambda c, x, y, f=f: f(x, y))))
        I.append(Inst(nm + "_assign", VV, "V", "a", lanewise2(lambda c, x, y, f=f: f(x, y)),
                      pre="a %s= b;" % sym))
        I.append(Inst(nm + "_assign_ret", VV, "V", "(a %s= b)" % sym,
                      lanewise2(lambda c, x, y, f=f: f(x, y))))
    A = [("V", "a")]
    I.append(Inst("neg", A, "V", "-a", lanewise1(lambda c, x: T.neg(x))))
    I.append(Inst("pos", A, "V", "+a", lanewise1(lambda c, x: x)))
    I.append(Inst("preinc", A, "V", "a", lanewise1(lambda c, x: T.add(x, one(c))), pre="++a;"))
    I.append(Inst("preinc_ret", A, "V", "++a", lanewise1(lambda c, x: T.add(x, one(c)))))
    I.append(Inst("postinc", A, "V", "a", lanewise1(lambda c, x: T.add(x, one(c))), pre="a++;"))
    I.append(Inst("postinc_ret", A, "V", "a++", lanewise1(lambda c, x: x)))
    I.append(Inst("predec", A, "V", "a", lanewise1(lambda c, x: T.sub(x, one(c))), pre="--a;"))
    I.append(Inst("predec_ret", A, "V", "--a", lanewise1(lambda c, x: T.sub(x, one(c)))))
    I.append(Inst("postdec", A, "V", "a", lanewise1(lambda c, x: T.sub(x, one(c))), pre="a--;"))
    I.append(Inst("postdec_ret", A, "V", "a--", lanewise1(lambda c, x: x)))
    return I


# ---------------------------------------------------------------------------
# C02 comparisons

def fam_compare(vt, cfg):
    I = []
    if vt.is_float:
        preds = {"eq": "oeq", "ne": "une", "lt": "olt", "le": "ole", "gt": "ogt", "ge": "oge"}
    elif vt.signed:
        preds = {"eq": "eq", "ne": "ne", "lt": "slt", "le": "sle", "gt": "sgt", "ge": "sge"}
    else:
        preds = {"eq": "eq", "ne": "ne", "lt": "ult", "le": "ule", "gt": "ugt", "ge": "uge"}
    sym = {"eq": "==", "ne": "!=", "lt": "<", "le": "<=", "gt": ">", "ge": ">="}
    for nm in ("eq", "ne", "lt", "le", "gt", "ge"):
        I.append(Inst("cmp_" + nm, VV, "M", "a %s b" % sym[nm], cmpmask(lambda c, p=preds[nm]: p)))
    return I


# ---------------------------------------------------------------------------
# C10 float arithmetic

def fam_floatarith(vt, cfg):
    if not vt.is_float:
        return []
    I = []
    for nm, sym in (("add", "+"), ("sub", "-"), ("mul", "*"), ("div", "/")):
        f = (lambda c, x, y: T.fsub(c.vt.eb, x, y)) if nm == "sub" else (
            lambda c, x, y, nm=nm: T.opc("f" + nm, c.vt.eb, x, y))
        I.append(Inst("f" + nm, VV, "V", "a %s b" % sym, lanewise2(f)))
        I.append(Inst("f" + nm + "_assign", VV, "V", "a", lanewise2(f), pre="a %s= b;" % sym))
    A = [("V", "a")]

    def onef(c):
        return T.const(c.vt.eb, 0x3F800000 if c.vt.eb == 32 else 0x3FF0000000000000)
    inc = lambda c, x: T.opc("fadd", c.vt.eb, x, onef(c))
    dec = lambda c, x: T.fsub(c.vt.eb, x, onef(c))
    I.append(Inst("fneg", A, "V", "-a",
                  lanewise1(lambda c, x: T.concat([T.slice_(x, 0, c.vt.eb - 1), T.not_(T.msb(x))]))))
    I.append(Inst("fpos", A, "V", "+a", lanewise1(lambda c, x: x)))
    I.append(Inst("fpreinc", A, "V", "a", lanewise1(inc), pre="++a;"))
    I.append(Inst("fpostinc", A, "V", "a", lanewise1(inc), pre="a++;"))
    I.append(Inst("fpostinc_ret", A, "V", "a++", lanewise1(lambda c, x: x)))
    I.append(Inst("fpredec", A, "V", "a", lanewise1(dec), pre="--a;"))
    I.append(Inst("fpostdec", A, "V", "a", lanewise1(dec), pre="a--;"))
    I.append(Inst("fpostdec_ret", A, "V", "a--", lanewise1(lambda c, x: x)))
    I.append(Inst("fsqrt", A, "V", "avel::sqrt(a)", lanewise1(lambda c, x: T.op("call:llvm.sqrt", c.vt.eb, x))))
    return I


FAMILIES = {
    "intarith": fam_intarith,
    "compare": fam_compare,
    "floatarith": fam_floatarith,
}
