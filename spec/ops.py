"""Operation catalogue: for every public operation named in docs/*.md and in
the property statements, the wrapper that instantiates it and the closed form
the property demands.  One Inst = one obligation.

Expectation functions build terms with the same smart constructors the IR
interpreter uses, so "accepted normal forms" are semantic (LangRef / SDM
meaning of the lane operation), never source text.
"""
import term as T


class Inst:
    def __init__(self, op, args, ret, body, expect=None, param=None, pre="", judge=None,
                 note=None, lanewise=True, pure=True, tmpl=""):
        self.op = op
        self.args = args          # [(kind, name)]
        self.ret = ret
        self.body = body
        self.pre = pre
        self.expect = expect
        self.param = param
        self.judge = judge
        self.note = note
        self.lanewise = lanewise  # result lane i may depend on lane i of the vector args only
        self.pure = pure
        self.fname = "w_%s%s" % (op, ("_%s" % param) if param is not None else "")

    def key(self, cfg, vt):
        k = {"cfg": cfg.name, "type": vt.name, "op": self.op}
        if self.param is not None:
            k["param"] = self.param
        return k


PARAM = {"VA": "VP p%s", "BA": "const BARR* %s", "LL8": "long long %s", "V": "VP p%s", "M": "MP p%s", "S": "S %s", "LL": "long long %s", "B": "bool %s",
         "U32": "std::uint32_t %s", "CP": "const S* %s", "P": "S* %s", "VI": "IVP p%s",
         "V2": "VP2 p%s", "M2": "MP2 p%s", "I32": "std::int32_t %s", "I64": "std::int64_t %s"}
LOCAL = {"VA": "V %s{p%s};", "V": "V %s{p%s};", "M": "M %s{p%s};", "VI": "IV %s{p%s};", "V2": "V2 %s{p%s};",
         "M2": "M2 %s{p%s};"}
RET = {"V": "VP", "M": "MP", "S": "S", "B": "bool", "U32": "std::uint32_t", "void": "void",
       "V2": "VP2", "M2": "MP2", "I32": "std::int32_t", "I64": "std::int64_t", "US": "US"}


def wrapper_line(inst):
    ps = ", ".join(PARAM[k] % n for k, n in inst.args)
    loc = " ".join(LOCAL[k] % (n, n) for k, n in inst.args if k in LOCAL)
    if inst.ret == "void":
        body = "%s %s;" % (inst.pre, inst.body)
    elif inst.ret in ("V", "M", "V2", "M2"):
        body = "%s return avel::decay(%s);" % (inst.pre, inst.body)
    else:
        body = "%s return %s;" % (inst.pre, inst.body)
    return 'extern "C" %s %s(%s) { %s %s }' % (RET[inst.ret], inst.fname, ps, loc, body)


def header(vt, extra=()):
    h = ["#include <avel/Avel.hpp>",
         "typedef avel::%s V; typedef V::mask M; typedef V::scalar S; typedef V::primitive VP; "
         "typedef M::primitive MP;" % vt.name,
         "typedef std::array<bool, V::width> BARR;",
         "typedef std::make_unsigned<std::conditional<std::is_integral<S>::value, S, int>::type>::type US;"]
    h += list(extra)
    return h


# ---------------------------------------------------------------------------
# helpers

def lanewise2(f):
    def e(c):
        return c.pack([f(c, x, y) for x, y in zip(c.lanes("a"), c.lanes("b"))])
    return e


def lanewise1(f):
    def e(c):
        return c.pack([f(c, x) for x in c.lanes("a")])
    return e


def cmpmask(pred_of):
    def e(c):
        p = pred_of(c)
        if c.vt.is_float:
            return c.pack_mask([T.fcmp(p, x, y) for x, y in zip(c.lanes("a"), c.lanes("b"))])
        return c.pack_mask([T.icmp(p, x, y) for x, y in zip(c.lanes("a"), c.lanes("b"))])
    return e


VV = [("V", "a"), ("V", "b")]


# ---------------------------------------------------------------------------
# C01 integer arithmetic

def fam_intarith(vt, cfg):
    if not vt.is_int:
        return []
    one = lambda c: T.const(c.vt.eb, 1)
    I = []
    for nm, sym, f in (("add", "+", T.add), ("sub", "-", T.sub), ("mul", "*", T.mul)):
        I.append(Inst(nm, VV, "V", "a %s b" % sym, lanewise2(lambda c, x, y, f=f: f(x, y))))
        I.append(Inst(nm + "_assign", VV, "V", "a", lanewise2(lambda c, x, y, f=f: f(x, y)),
                      pre="a %s= b;" % sym))
        I.append(Inst(nm + "_assign_ret", VV, "V", "(a %s= b)" % sym,
                      lanewise2(lambda c, x, y, f=f: f(x, y))))
    A = [("V", "a")]
    I.append(Inst("neg", A, "V", "-a", lanewise1(lambda c, x: T.neg(x))))
    I.append(Inst("pos", A, "V", "+a", lanewise1(lambda c, x: x)))
    I.append(Inst("preinc", A, "V", "a", lanewise1(lambda c, x: T.add(x, one(c))), pre="++a;"))
    I.append(Inst("preinc_ret", A, "V", "++a", lanewise1(lambda c, x: T.add(x, one(c)))))
    I.append(Inst("postinc", A, "V", "a", lanewise1(lambda c, x: T.add(x, one(c))), pre="a++;"))
    I.append(Inst("postinc_ret", A, "V", "a++", lanewise1(lambda c, x: x)))
    I.append(Inst("predec", A, "V", "a", lanewise1(lambda c, x: T.sub(x, one(c))), pre="--a;"))
    I.append(Inst("predec_ret", A, "V", "--a", lanewise1(lambda c, x: T.sub(x, one(c)))))
    I.append(Inst("postdec", A, "V", "a", lanewise1(lambda c, x: T.sub(x, one(c))), pre="a--;"))
    I.append(Inst("postdec_ret", A, "V", "a--", lanewise1(lambda c, x: x)))
    return I


# ---------------------------------------------------------------------------
# C02 comparisons

def fam_compare(vt, cfg):
    I = []
    if vt.is_float:
        preds = {"eq": "oeq", "ne": "une", "lt": "olt", "le": "ole", "gt": "ogt", "ge": "oge"}
    elif vt.signed:
        preds = {"eq": "eq", "ne": "ne", "lt": "slt", "le": "sle", "gt": "sgt", "ge": "sge"}
    else:
        preds = {"eq": "eq", "ne": "ne", "lt": "ult", "le": "ule", "gt": "ugt", "ge": "uge"}
    sym = {"eq": "==", "ne": "!=", "lt": "<", "le": "<=", "gt": ">", "ge": ">="}
    for nm in ("eq", "ne", "lt", "le", "gt", "ge"):
        I.append(Inst("cmp_" + nm, VV, "M", "a %s b" % sym[nm], cmpmask(lambda c, p=preds[nm]: p)))
    return I


# ---------------------------------------------------------------------------
# C10 float arithmetic

def fam_floatarith(vt, cfg):
    if not vt.is_float:
        return []
    I = []
    for nm, sym in (("add", "+"), ("sub", "-"), ("mul", "*"), ("div", "/")):
        f = (lambda c, x, y: T.fsub(c.vt.eb, x, y)) if nm == "sub" else (
            lambda c, x, y, nm=nm: T.opc("f" + nm, c.vt.eb, x, y))
        I.append(Inst("f" + nm, VV, "V", "a %s b" % sym, lanewise2(f)))
        I.append(Inst("f" + nm + "_assign", VV, "V", "a", lanewise2(f), pre="a %s= b;" % sym))
    A = [("V", "a")]

    def onef(c):
        return T.const(c.vt.eb, 0x3F800000 if c.vt.eb == 32 else 0x3FF0000000000000)
    inc = lambda c, x: T.opc("fadd", c.vt.eb, x, onef(c))
    dec = lambda c, x: T.fsub(c.vt.eb, x, onef(c))
    I.append(Inst("fneg", A, "V", "-a",
                  lanewise1(lambda c, x: T.concat([T.slice_(x, 0, c.vt.eb - 1), T.not_(T.msb(x))]))))
    I.append(Inst("fpos", A, "V", "+a", lanewise1(lambda c, x: x)))
    I.append(Inst("fpreinc", A, "V", "a", lanewise1(inc), pre="++a;"))
    I.append(Inst("fpostinc", A, "V", "a", lanewise1(inc), pre="a++;"))
    I.append(Inst("fpostinc_ret", A, "V", "a++", lanewise1(lambda c, x: x)))
    I.append(Inst("fpredec", A, "V", "a", lanewise1(dec), pre="--a;"))
    I.append(Inst("fpostdec", A, "V", "a", lanewise1(dec), pre="a--;"))
    I.append(Inst("fpostdec_ret", A, "V", "a--", lanewise1(lambda c, x: x)))
    I.append(Inst("fsqrt", A, "V", "avel::sqrt(a)", lanewise1(lambda c, x: T.op("call:llvm.sqrt", c.vt.eb, x))))
    return I


# ---------------------------------------------------------------------------
# C03 masks

MM = [("M", "m"), ("M", "n")]


def bits_and(bs):
    return T.icmp("eq", T.concat(list(bs)), T.const(len(bs), -1))


def bits_or(bs):
    return T.icmp("ne", T.concat(list(bs)), T.const(len(bs), 0))


def bits_none(bs):
    return T.icmp("eq", T.concat(list(bs)), T.const(len(bs), 0))


def fam_mask(vt, cfg):
    I = []
    n = vt.n
    for nm, sym, f in (("mand", "&", T.and_), ("mor", "|", T.or_), ("mxor", "^", T.xor),
                       ("mland", "&&", T.and_), ("mlor", "||", T.or_)):
        e = lambda c, f=f: c.pack_mask([f(x, y) for x, y in zip(c.mbits("m"), c.mbits("n"))])
        I.append(Inst(nm, MM, "M", "m %s n" % sym, e))
        if len(sym) == 1:
            I.append(Inst(nm + "_assign", MM, "M", "m", e, pre="m %s= n;" % sym))
    I.append(Inst("mnot", [("M", "m")], "M", "!m", lambda c: c.pack_mask([T.not_(x) for x in c.mbits("m")])))
    I.append(Inst("meq", MM, "B", "m == n",
                  lambda c: T.icmp("eq", T.concat(c.mbits("m")), T.concat(c.mbits("n")))))
    I.append(Inst("mne", MM, "B", "m != n",
                  lambda c: T.icmp("ne", T.concat(c.mbits("m")), T.concat(c.mbits("n")))))
    I.append(Inst("mcount", [("M", "m")], "U32", "avel::count(m)",
                  lambda c: T.popsum(32, [(b, 1) for b in c.mbits("m")])))
    I.append(Inst("many", [("M", "m")], "B", "avel::any(m)", lambda c: bits_or(c.mbits("m"))))
    I.append(Inst("mall", [("M", "m")], "B", "avel::all(m)", lambda c: bits_and(c.mbits("m"))))
    I.append(Inst("mnone", [("M", "m")], "B", "avel::none(m)",
                  lambda c: bits_none(c.mbits("m"))))
    for i in range(n):
        I.append(Inst("mextract", [("M", "m")], "B", "avel::extract<%d>(m)" % i,
                      lambda c, i=i: c.mbits("m")[i], param=i))
        I.append(Inst("minsert", [("M", "m"), ("B", "b")], "M", "avel::insert<%d>(m, b)" % i,
                      lambda c, i=i: c.pack_mask([c.args["b"] if j == i else x
                                                  for j, x in enumerate(c.mbits("m"))]), param=i))
    I.append(Inst("mfrombool", [("B", "b")], "M", "M{b}", lambda c: c.pack_mask([c.args["b"]] * c.vt.n)))
    I.append(Inst("massignbool", [("M", "m"), ("B", "b")], "M", "m", lambda c: c.pack_mask([c.args["b"]] * c.vt.n),
                  pre="m = b;"))
    I.append(Inst("mfromarray", [("BA", "arr")], "M", "M{*arr}",
                  lambda c: c.pack_mask([T.mk("mem", 1, c.args["arr"], i, 0) for i in range(c.vt.n)]), pure=False))
    # mask <-> vector
    if vt.is_float:
        one = 0x3F800000 if vt.eb == 32 else 0x3FF0000000000000
        I.append(Inst("vfrommask", [("M", "m")], "V", "V{m}",
                      lambda c: c.pack([T.select(b, T.const(c.vt.eb, one), T.const(c.vt.eb, 0)) for b in c.mbits("m")])))
        I.append(Inst("masktovec_cast", [("V", "a")], "M", "static_cast<M>(a)",
                      lambda c: c.pack_mask([T.fcmp("une", x, T.const(c.vt.eb, 0)) for x in c.lanes("a")])))
    else:
        I.append(Inst("vfrommask", [("M", "m")], "V", "V{m}",
                      lambda c: c.pack([T.zext(b, c.vt.eb) for b in c.mbits("m")])))
        I.append(Inst("masktovec_cast", [("V", "a")], "M", "static_cast<M>(a)",
                      lambda c: c.pack_mask([T.icmp("ne", x, T.const(c.vt.eb, 0)) for x in c.lanes("a")])))
    if vt.is_int:
        I.append(Inst("set_bits", [("M", "m")], "V", "avel::set_bits(m)",
                      lambda c: c.pack([T.rep(c.vt.eb, b) for b in c.mbits("m")])))
    return I


# ---------------------------------------------------------------------------
# C04 bitwise, shifts, rotations

def sh(kind, x, amt):
    return T.shift(kind, x, amt, True)


def rot(kind, x, amt):
    """rotate left/right by amt modulo width"""
    return T.fsh("fshl" if kind == "l" else "fshr", x, x, amt)


def fam_bitwise(vt, cfg):
    if not vt.is_int:
        return []
    I = []
    B = vt.eb
    for nm, sym, f in (("and", "&", T.and_), ("or", "|", T.or_), ("xor", "^", T.xor)):
        I.append(Inst(nm, VV, "V", "a %s b" % sym, lanewise2(lambda c, x, y, f=f: f(x, y))))
        I.append(Inst(nm + "_assign", VV, "V", "a", lanewise2(lambda c, x, y, f=f: f(x, y)), pre="a %s= b;" % sym))
    I.append(Inst("not", [("V", "a")], "V", "~a", lanewise1(lambda c, x: T.not_(x))))
    rk = "ashr" if vt.signed else "lshr"
    VS = [("V", "a"), ("LL8", "s")]
    I.append(Inst("shl_s", VS, "V", "a << s", lambda c: c.pack([sh("shl", x, c.args["s"]) for x in c.lanes("a")])))
    I.append(Inst("shl_s_assign", VS, "V", "a", lambda c: c.pack([sh("shl", x, c.args["s"]) for x in c.lanes("a")]), pre="a <<= s;"))
    I.append(Inst("shr_s", VS, "V", "a >> s", lambda c: c.pack([sh(rk, x, c.args["s"]) for x in c.lanes("a")])))
    I.append(Inst("shr_s_assign", VS, "V", "a", lambda c: c.pack([sh(rk, x, c.args["s"]) for x in c.lanes("a")]), pre="a >>= s;"))
    VA = [("V", "a"), ("VA", "b")]
    I.append(Inst("shl_v", VA, "V", "a << b", lanewise2(lambda c, x, y: sh("shl", x, y)), note="amounts in [0,bits]"))
    I.append(Inst("shl_v_assign", VA, "V", "a", lanewise2(lambda c, x, y: sh("shl", x, y)), pre="a <<= b;"))
    I.append(Inst("shr_v", VA, "V", "a >> b", lanewise2(lambda c, x, y: sh(rk, x, y))))
    I.append(Inst("shr_v_assign", VA, "V", "a", lanewise2(lambda c, x, y: sh(rk, x, y)), pre="a >>= b;"))
    for S in range(0, B + 1):
        I.append(Inst("bit_shift_left", [("V", "a")], "V", "avel::bit_shift_left<%d>(a)" % S,
                      lanewise1(lambda c, x, S=S: T.shl_c(x, S)), param=S))
        I.append(Inst("bit_shift_right", [("V", "a")], "V", "avel::bit_shift_right<%d>(a)" % S,
                      lanewise1(lambda c, x, S=S: (T.ashr_c if c.vt.signed else T.lshr_c)(x, S)), param=S))
    for S in list(range(0, B + 1)) + [B + 1, B + B // 2, 2 * B - 1, 2 * B, 2 * B + 3]:
        I.append(Inst("rotl_c", [("V", "a")], "V", "avel::rotl<%d>(a)" % S,
                      lanewise1(lambda c, x, S=S: T.rotl_c(x, S)), param=S))
        I.append(Inst("rotr_c", [("V", "a")], "V", "avel::rotr<%d>(a)" % S,
                      lanewise1(lambda c, x, S=S: T.rotl_c(x, (-S) % c.vt.eb)), param=S))
    VSL = [("V", "a"), ("LL", "s")]
    I.append(Inst("rotl_s", VSL, "V", "avel::rotl(a, s)", lambda c: c.pack([rot("l", x, c.args["s"]) for x in c.lanes("a")])))
    I.append(Inst("rotr_s", VSL, "V", "avel::rotr(a, s)", lambda c: c.pack([rot("r", x, c.args["s"]) for x in c.lanes("a")])))
    I.append(Inst("rotl_v", VV, "V", "avel::rotl(a, b)", lanewise2(lambda c, x, y: rot("l", x, y))))
    I.append(Inst("rotr_v", VV, "V", "avel::rotr(a, b)", lanewise2(lambda c, x, y: rot("r", x, y))))
    return I


FAMILIES = {
    "mask": fam_mask,
    "bitwise": fam_bitwise,
    "intarith": fam_intarith,
    "compare": fam_compare,
    "floatarith": fam_floatarith,
}
