"""Operation catalogue: for every public operation named in docs/*.md and in
the property statements, the wrapper that instantiates it and the closed form
the property demands.  One Inst = one obligation.

Expectation functions build terms with the same smart constructors the IR
interpreter uses, so "accepted normal forms" are semantic (LangRef / SDM
meaning of the lane operation), never source text.
"""
import term as T


class Inst:
    def __init__(self, op, args, ret, body, expect=None, param=None, pre="", judge=None,
                 note=None, lanewise=True, pure=True, tmpl=""):
        self.op = op
        self.args = args          # [(kind, name)]
        self.ret = ret
        self.body = body
        self.pre = pre
        self.expect = expect
        self.param = param
        self.judge = judge
        self.note = note
        self.lanewise = lanewise  # result lane i may depend on lane i of the vector args only
        self.pure = pure
        self.fname = "w_%s%s" % (op, ("_%s" % param) if param is not None else "")

    def key(self, cfg, vt):
        k = {"cfg": cfg.name, "type": vt.name, "op": self.op}
        if self.param is not None:
            k["param"] = self.param
        return k


PARAM = {"P2": "void* %s", "VI2": "typename avel::Vector<typename std::conditional<sizeof(S) == 4, std::int32_t, std::int64_t>::type, V::width>::primitive p%s", "US": "US %s", "SI": "S %s", "VA": "VP p%s", "BA": "const BARR* %s", "LL8": "long long %s", "V": "VP p%s", "M": "MP p%s", "S": "S %s", "LL": "long long %s", "B": "bool %s",
         "U32": "std::uint32_t %s", "CP": "const S* %s", "P": "S* %s", "VI": "IVP p%s",
         "V2": "VP2 p%s", "M2": "MP2 p%s", "I32": "std::int32_t %s", "I64": "std::int64_t %s"}
LOCAL = {"VA": "V %s{p%s};", "V": "V %s{p%s};", "M": "M %s{p%s};", "VI": "IV %s{p%s};", "V2": "V2 %s{p%s};",
         "M2": "M2 %s{p%s};"}
RET = {"V": "VP", "M": "MP", "S": "S", "B": "bool", "U32": "std::uint32_t", "void": "void",
       "V2": "VP2", "M2": "MP2", "I32": "std::int32_t", "I64": "std::int64_t", "US": "US"}


def wrapper_line(inst):
    ps = ", ".join(PARAM[k] % n for k, n in inst.args)
    loc = " ".join(LOCAL[k] % (n, n) for k, n in inst.args if k in LOCAL)
    if inst.ret == "void":
        body = "%s %s;" % (inst.pre, inst.body)
    elif (inst.ret in ("V", "M", "V2", "M2") or getattr(inst, "rettype", None)) and not getattr(inst, "nodecay", False):
        body = "%s return avel::decay(%s);" % (inst.pre, inst.body)
    else:
        body = "%s return %s;" % (inst.pre, inst.body)
    rt = getattr(inst, "rettype", None) or RET[inst.ret]
    return 'extern "C" %s %s(%s) { %s %s }' % (rt, inst.fname, ps, loc, body)


def header(vt, extra=()):
    h = ["#include <avel/Avel.hpp>",
         "typedef avel::%s V; typedef V::mask M; typedef V::scalar S; typedef V::primitive VP; "
         "typedef M::primitive MP;" % vt.name,
         "typedef std::array<bool, V::width> BARR; typedef std::array<S, V::width> ARR;",
         ("typedef avel::Vector<avel::to_index_type<S>::type, V::width> IV; typedef IV::primitive IVP;"
          if vt.eb >= 32 else ""),
         "typedef std::make_unsigned<std::conditional<std::is_integral<S>::value, S, int>::type>::type US;"]
    h += list(extra)
    return h


# ---------------------------------------------------------------------------
# helpers

def lanewise2(f):
    def e(c):
        return c.pack([f(c, x, y) for x, y in zip(c.lanes("a"), c.lanes("b"))])
    return e


def lanewise1(f):
    def e(c):
        return c.pack([f(c, x) for x in c.lanes("a")])
    return e


def cmpmask(pred_of):
    def e(c):
        p = pred_of(c)
        if c.vt.is_float:
            return c.pack_mask([T.fcmp(p, x, y) for x, y in zip(c.lanes("a"), c.lanes("b"))])
        return c.pack_mask([T.icmp(p, x, y) for x, y in zip(c.lanes("a"), c.lanes("b"))])
    return e


VV = [("V", "a"), ("V", "b")]


# ---------------------------------------------------------------------------
# C01 integer arithmetic

def fam_intarith(vt, cfg):
    if not vt.is_int:
        return []
    one = lambda c: T.const(c.vt.eb, 1)
    I = []
    for nm, sym, f in (("add", "+", T.add), ("sub", "-", T.sub), ("mul", "*", T.mul)):
        I.append(Inst(nm, VV, "V", "a %s b" % sym, lanewise2(lambda c, x, y, f=f: f(x, y))))
        I.append(Inst(nm + "_assign", VV, "V", "a", lanewise2(lambda c, x, y, f=f: f(x, y)),
                      pre="a %s= b;" % sym))
        I.append(Inst(nm + "_assign_ret", VV, "V", "(a %s= b)" % sym,
                      lanewise2(lambda c, x, y, f=f: f(x, y))))
    A = [("V", "a")]
    I.append(Inst("neg", A, "V", "-a", lanewise1(lambda c, x: T.neg(x))))
    I.append(Inst("pos", A, "V", "+a", lanewise1(lambda c, x: x)))
    I.append(Inst("preinc", A, "V", "a", lanewise1(lambda c, x: T.add(x, one(c))), pre="++a;"))
    I.append(Inst("preinc_ret", A, "V", "++a", lanewise1(lambda c, x: T.add(x, one(c)))))
    I.append(Inst("postinc", A, "V", "a", lanewise1(lambda c, x: T.add(x, one(c))), pre="a++;"))
    I.append(Inst("postinc_ret", A, "V", "a++", lanewise1(lambda c, x: x)))
    I.append(Inst("predec", A, "V", "a", lanewise1(lambda c, x: T.sub(x, one(c))), pre="--a;"))
    I.append(Inst("predec_ret", A, "V", "--a", lanewise1(lambda c, x: T.sub(x, one(c)))))
    I.append(Inst("postdec", A, "V", "a", lanewise1(lambda c, x: T.sub(x, one(c))), pre="a--;"))
    I.append(Inst("postdec_ret", A, "V", "a--", lanewise1(lambda c, x: x)))
    return I


# ---------------------------------------------------------------------------
# C02 comparisons

def fam_compare(vt, cfg):
    I = []
    if vt.is_float:
        preds = {"eq": "oeq", "ne": "une", "lt": "olt", "le": "ole", "gt": "ogt", "ge": "oge"}
    elif vt.signed:
        preds = {"eq": "eq", "ne": "ne", "lt": "slt", "le": "sle", "gt": "sgt", "ge": "sge"}
    else:
        preds = {"eq": "eq", "ne": "ne", "lt": "ult", "le": "ule", "gt": "ugt", "ge": "uge"}
    sym = {"eq": "==", "ne": "!=", "lt": "<", "le": "<=", "gt": ">", "ge": ">="}
    for nm in ("eq", "ne", "lt", "le", "gt", "ge"):
        I.append(Inst("cmp_" + nm, VV, "M", "a %s b" % sym[nm], cmpmask(lambda c, p=preds[nm]: p)))
    return I


# ---------------------------------------------------------------------------
# C10 float arithmetic

def fam_floatarith(vt, cfg):
    if not vt.is_float:
        return []
    I = []
    for nm, sym in (("add", "+"), ("sub", "-"), ("mul", "*"), ("div", "/")):
        f = (lambda c, x, y: T.fsub(c.vt.eb, x, y)) if nm == "sub" else (
            lambda c, x, y, nm=nm: T.opc("f" + nm, c.vt.eb, x, y))
        I.append(Inst("f" + nm, VV, "V", "a %s b" % sym, lanewise2(f)))
        I.append(Inst("f" + nm + "_assign", VV, "V", "a", lanewise2(f), pre="a %s= b;" % sym))
    A = [("V", "a")]

    def onef(c):
        return T.const(c.vt.eb, 0x3F800000 if c.vt.eb == 32 else 0x3FF0000000000000)
    inc = lambda c, x: T.opc("fadd", c.vt.eb, x, onef(c))
    dec = lambda c, x: T.fsub(c.vt.eb, x, onef(c))
    I.append(Inst("fneg", A, "V", "-a",
                  lanewise1(lambda c, x: T.concat([T.slice_(x, 0, c.vt.eb - 1), T.not_(T.msb(x))]))))
    I.append(Inst("fpos", A, "V", "+a", lanewise1(lambda c, x: x)))
    I.append(Inst("fpreinc", A, "V", "a", lanewise1(inc), pre="++a;"))
    I.append(Inst("fpostinc", A, "V", "a", lanewise1(inc), pre="a++;"))
    I.append(Inst("fpostinc_ret", A, "V", "a++", lanewise1(lambda c, x: x)))
    I.append(Inst("fpredec", A, "V", "a", lanewise1(dec), pre="--a;"))
    I.append(Inst("fpostdec", A, "V", "a", lanewise1(dec), pre="a--;"))
    I.append(Inst("fpostdec_ret", A, "V", "a--", lanewise1(lambda c, x: x)))
    I.append(Inst("fsqrt", A, "V", "avel::sqrt(a)", lanewise1(lambda c, x: T.op("call:llvm.sqrt", c.vt.eb, x))))
    return I


# ---------------------------------------------------------------------------
# C03 masks

MM = [("M", "m"), ("M", "n")]


def bits_and(bs):
    return T.icmp("eq", T.concat(list(bs)), T.const(len(bs), -1))


def bits_or(bs):
    return T.icmp("ne", T.concat(list(bs)), T.const(len(bs), 0))


def bits_none(bs):
    return T.icmp("eq", T.concat(list(bs)), T.const(len(bs), 0))


def judge_mfromarray(ctx, inst, S):
    """construction from std::array<bool, N>: the N given values are reproduced (closed-form comparison over the
    memory bits) and nothing but the N bytes of the array is read - an array that ends at the end of a mapped
    page must not fault"""
    import runner
    import memjudge
    from common import REFUTED
    n = ctx.vt.n
    v, d, r, w = memjudge._footprint(ctx, S, n, n, "mask from std::array<bool, %d>" % n, ptr="arr")
    if v == REFUTED:
        return v, d, r, w
    return runner.judge_default(ctx, inst, S)


def fam_mask(vt, cfg):
    I = []
    n = vt.n
    for nm, sym, f in (("mand", "&", T.and_), ("mor", "|", T.or_), ("mxor", "^", T.xor),
                       ("mland", "&&", T.and_), ("mlor", "||", T.or_)):
        e = lambda c, f=f: c.pack_mask([f(x, y) for x, y in zip(c.mbits("m"), c.mbits("n"))])
        I.append(Inst(nm, MM, "M", "m %s n" % sym, e))
        if len(sym) == 1:
            I.append(Inst(nm + "_assign", MM, "M", "m", e, pre="m %s= n;" % sym))
    I.append(Inst("mnot", [("M", "m")], "M", "!m", lambda c: c.pack_mask([T.not_(x) for x in c.mbits("m")])))
    I.append(Inst("meq", MM, "B", "m == n",
                  lambda c: T.icmp("eq", T.concat(c.mbits("m")), T.concat(c.mbits("n")))))
    I.append(Inst("mne", MM, "B", "m != n",
                  lambda c: T.icmp("ne", T.concat(c.mbits("m")), T.concat(c.mbits("n")))))
    I.append(Inst("mcount", [("M", "m")], "U32", "avel::count(m)",
                  lambda c: T.popsum(32, [(b, 1) for b in c.mbits("m")])))
    I.append(Inst("many", [("M", "m")], "B", "avel::any(m)", lambda c: bits_or(c.mbits("m"))))
    I.append(Inst("mall", [("M", "m")], "B", "avel::all(m)", lambda c: bits_and(c.mbits("m"))))
    I.append(Inst("mnone", [("M", "m")], "B", "avel::none(m)",
                  lambda c: bits_none(c.mbits("m"))))
    for i in (range(n) if TIER != "parity" else (0,)):
        I.append(Inst("mextract", [("M", "m")], "B", "avel::extract<%d>(m)" % i,
                      lambda c, i=i: c.mbits("m")[i], param=i))
        I.append(Inst("minsert", [("M", "m"), ("B", "b")], "M", "avel::insert<%d>(m, b)" % i,
                      lambda c, i=i: c.pack_mask([c.args["b"] if j == i else x
                                                  for j, x in enumerate(c.mbits("m"))]), param=i))
    I.append(Inst("mfrombool", [("B", "b")], "M", "M{b}", lambda c: c.pack_mask([c.args["b"]] * c.vt.n)))
    I.append(Inst("massignbool", [("M", "m"), ("B", "b")], "M", "m", lambda c: c.pack_mask([c.args["b"]] * c.vt.n),
                  pre="m = b;"))
    I.append(Inst("mfromarray", [("BA", "arr")], "M", "M{*arr}",
                  lambda c: c.pack_mask([T.mk("mem", 1, c.args["arr"], i, 0) for i in range(c.vt.n)]), pure=False,
                  judge=judge_mfromarray))
    # mask <-> vector
    if vt.is_float:
        one = 0x3F800000 if vt.eb == 32 else 0x3FF0000000000000
        I.append(Inst("vfrommask", [("M", "m")], "V", "V{m}",
                      lambda c: c.pack([T.select(b, T.const(c.vt.eb, one), T.const(c.vt.eb, 0)) for b in c.mbits("m")])))
        I.append(Inst("masktovec_cast", [("V", "a")], "M", "static_cast<M>(a)",
                      lambda c: c.pack_mask([T.fcmp("une", x, T.const(c.vt.eb, 0)) for x in c.lanes("a")])))
    else:
        I.append(Inst("vfrommask", [("M", "m")], "V", "V{m}",
                      lambda c: c.pack([T.zext(b, c.vt.eb) for b in c.mbits("m")])))
        I.append(Inst("masktovec_cast", [("V", "a")], "M", "static_cast<M>(a)",
                      lambda c: c.pack_mask([T.icmp("ne", x, T.const(c.vt.eb, 0)) for x in c.lanes("a")])))
    if vt.is_int:
        I.append(Inst("set_bits", [("M", "m")], "V", "avel::set_bits(m)",
                      lambda c: c.pack([T.rep(c.vt.eb, b) for b in c.mbits("m")])))
    return I


# ---------------------------------------------------------------------------
# C04 bitwise, shifts, rotations

def sh(kind, x, amt):
    return T.shift(kind, x, amt, True)


def rot(kind, x, amt):
    """rotate left/right by amt modulo width"""
    return T.fsh("fshl" if kind == "l" else "fshr", x, x, amt)


def fam_bitwise(vt, cfg):
    if not vt.is_int:
        return []
    I = []
    B = vt.eb
    for nm, sym, f in (("and", "&", T.and_), ("or", "|", T.or_), ("xor", "^", T.xor)):
        I.append(Inst(nm, VV, "V", "a %s b" % sym, lanewise2(lambda c, x, y, f=f: f(x, y))))
        I.append(Inst(nm + "_assign", VV, "V", "a", lanewise2(lambda c, x, y, f=f: f(x, y)), pre="a %s= b;" % sym))
    I.append(Inst("not", [("V", "a")], "V", "~a", lanewise1(lambda c, x: T.not_(x))))
    rk = "ashr" if vt.signed else "lshr"
    VS = [("V", "a"), ("LL8", "s")]
    I.append(Inst("shl_s", VS, "V", "a << s", lambda c: c.pack([sh("shl", x, c.args["s"]) for x in c.lanes("a")])))
    I.append(Inst("shl_s_assign", VS, "V", "a", lambda c: c.pack([sh("shl", x, c.args["s"]) for x in c.lanes("a")]), pre="a <<= s;"))
    I.append(Inst("shr_s", VS, "V", "a >> s", lambda c: c.pack([sh(rk, x, c.args["s"]) for x in c.lanes("a")])))
    I.append(Inst("shr_s_assign", VS, "V", "a", lambda c: c.pack([sh(rk, x, c.args["s"]) for x in c.lanes("a")]), pre="a >>= s;"))
    VA = [("V", "a"), ("VA", "b")]
    I.append(Inst("shl_v", VA, "V", "a << b", lanewise2(lambda c, x, y: sh("shl", x, y)), note="amounts in [0,bits]"))
    I.append(Inst("shl_v_assign", VA, "V", "a", lanewise2(lambda c, x, y: sh("shl", x, y)), pre="a <<= b;"))
    I.append(Inst("shr_v", VA, "V", "a >> b", lanewise2(lambda c, x, y: sh(rk, x, y))))
    I.append(Inst("shr_v_assign", VA, "V", "a", lanewise2(lambda c, x, y: sh(rk, x, y)), pre="a >>= b;"))
    for S in (range(0, B + 1) if TIER != "parity" else (0, 1, B)):
        I.append(Inst("bit_shift_left", [("V", "a")], "V", "avel::bit_shift_left<%d>(a)" % S,
                      lanewise1(lambda c, x, S=S: T.shl_c(x, S)), param=S))
        I.append(Inst("bit_shift_right", [("V", "a")], "V", "avel::bit_shift_right<%d>(a)" % S,
                      lanewise1(lambda c, x, S=S: (T.ashr_c if c.vt.signed else T.lshr_c)(x, S)), param=S))
    for S in (list(range(0, B + 1)) + [B + 1, B + B // 2, 2 * B - 1, 2 * B, 2 * B + 3] if TIER != "parity" else [0, 1, B + 1]):
        I.append(Inst("rotl_c", [("V", "a")], "V", "avel::rotl<%d>(a)" % S,
                      lanewise1(lambda c, x, S=S: T.rotl_c(x, S)), param=S))
        I.append(Inst("rotr_c", [("V", "a")], "V", "avel::rotr<%d>(a)" % S,
                      lanewise1(lambda c, x, S=S: T.rotl_c(x, (-S) % c.vt.eb)), param=S))
    VSL = [("V", "a"), ("LL", "s")]
    I.append(Inst("rotl_s", VSL, "V", "avel::rotl(a, s)", lambda c: c.pack([rot("l", x, c.args["s"]) for x in c.lanes("a")])))
    I.append(Inst("rotr_s", VSL, "V", "avel::rotr(a, s)", lambda c: c.pack([rot("r", x, c.args["s"]) for x in c.lanes("a")])))
    I.append(Inst("rotl_v", VV, "V", "avel::rotl(a, b)", lanewise2(lambda c, x, y: rot("l", x, y))))
    I.append(Inst("rotr_v", VV, "V", "avel::rotr(a, b)", lanewise2(lambda c, x, y: rot("r", x, y))))
    for i in I:
        if i.op.endswith(("_s", "_s_assign")):
            i.amount_arg = "s"
        elif i.op.endswith(("_v", "_v_assign")):
            i.amount_arg = "b"
    return I


# ---------------------------------------------------------------------------
# C07 selection, min/max/clamp, abs/negate, average, midpoint

def imin(c, x, y):
    return T.opc("call:llvm.smin" if c.vt.signed else "call:llvm.umin", c.vt.eb, x, y)


def imax(c, x, y):
    return T.opc("call:llvm.smax" if c.vt.signed else "call:llvm.umax", c.vt.eb, x, y)


def lanes_ok_clamp(vt):
    def ok(vals, names):
        lo, hi = vals[names.index("lo")], vals[names.index("hi")]
        for i in range(vt.n):
            a = (lo >> (i * vt.eb)) & ((1 << vt.eb) - 1)
            b = (hi >> (i * vt.eb)) & ((1 << vt.eb) - 1)
            if vt.signed:
                a, b = T._signed(a, vt.eb), T._signed(b, vt.eb)
            if vt.is_float:
                return None     # float clamp judged structurally only
            if not a < b:
                return False
        return True
    return ok


def avg_expected(c, x, y):
    eb = c.vt.eb
    W = eb + 2
    if c.vt.signed:
        s_ = T.add(T.sext(x, W), T.sext(y, W))
        return T.slice_(T.op("sdiv", W, s_, T.const(W, 2)), 0, eb)
    s_ = T.add(T.zext(x, W), T.zext(y, W))
    return T.slice_(s_, 1, eb)


def mid_expected(c, x, y):
    eb = c.vt.eb
    W = eb + 2
    ext = T.sext if c.vt.signed else T.zext
    d = T.sub(ext(y, W), ext(x, W))
    return T.slice_(T.add(ext(x, W), T.op("sdiv", W, d, T.const(W, 2))), 0, eb)


def mid_alt(c, x, y):
    """the same function written the way every AVEL branch computes it:
         midpoint(a, b) = floor((a + b) / 2) + [a > b and a + b odd]
    (a <= b: a + floor((b-a)/2) = floor((2a + b - a)/2) = floor((a+b)/2), a+b and b-a have the same parity;
     a > b: trunc((b-a)/2) = ceil((b-a)/2), so a + ceil((b-a)/2) = ceil((a+b)/2) = floor((a+b)/2) + [a+b odd]).
    The sum is taken in eb+1 bits on the extended operands, the comparison in the type's own signedness."""
    eb = c.vt.eb
    ext = T.sext if c.vt.signed else T.zext
    fl = T.slice_(T.add(ext(x, eb + 1), ext(y, eb + 1)), 1, eb)
    gt = T.icmp("sgt" if c.vt.signed else "ugt", x, y)
    odd = T.xor(T.slice_(x, 0, 1), T.slice_(y, 0, 1))
    return T.add(fl, T.concat([T.nary("and", 1, [gt, odd]), T.const(eb - 1, 0)]))


def check_alt_forms():
    """the alternative closed forms must be the same function as the primary ones: exhaustive comparison of
    the two *specification* terms on 8-bit lanes, both signednesses (a blunder in a derivation fails the
    check as analysis-broken; the argument for wider lanes is the derivation in the docstring)"""
    from e3 import VT

    class C:
        pass
    n = 0
    for kind in "ui":
        c = C()
        c.vt = VT(kind, 8, 1)
        x, y = T.arg(0, 0, 8), T.arg(1, 0, 8)
        for prim, alt in ((mid_expected, mid_alt),):
            p, a = prim(c, x, y), alt(c, x, y)
            for u in range(256):
                for v in range(256):
                    env = {"args": [u, v]}
                    if T.ev(p, env) != T.ev(a, env):
                        return "alternative form %s disagrees with %s at (%d, %d), %s" % (alt.__name__, prim.__name__, u, v, kind)
                    n += 1
    return n


def fam_select(vt, cfg):
    I = []
    eb = vt.eb
    MV = [("M", "m"), ("V", "a")]
    I.append(Inst("blend", [("M", "m"), ("V", "a"), ("V", "b")], "V", "avel::blend(m, a, b)",
                  lambda c: c.pack([T.select(mb, x, y) for mb, x, y in zip(c.mbits("m"), c.lanes("a"), c.lanes("b"))])))
    I.append(Inst("keep", MV, "V", "avel::keep(m, a)",
                  lambda c: c.pack([T.select(mb, x, T.const(eb, 0)) for mb, x in zip(c.mbits("m"), c.lanes("a"))])))
    I.append(Inst("clear", MV, "V", "avel::clear(m, a)",
                  lambda c: c.pack([T.select(mb, T.const(eb, 0), x) for mb, x in zip(c.mbits("m"), c.lanes("a"))])))
    if vt.is_int:
        I.append(Inst("min", VV, "V", "avel::min(a, b)", lanewise2(imin)))
        I.append(Inst("max", VV, "V", "avel::max(a, b)", lanewise2(imax)))
        I.append(Inst("minmax0", VV, "V", "avel::minmax(a, b)[0]", lanewise2(imin)))
        I.append(Inst("minmax1", VV, "V", "avel::minmax(a, b)[1]", lanewise2(imax)))
        I.append(Inst("clamp", [("V", "a"), ("V", "lo"), ("V", "hi")], "V", "avel::clamp(a, lo, hi)",
                      lambda c: c.pack([imin(c, imax(c, x, l), h) for x, l, h in
                                        zip(c.lanes("a"), c.lanes("lo"), c.lanes("hi"))]),
                      ))
        I[-1].env_ok = lanes_ok_clamp(vt)
        I.append(Inst("average", VV, "V", "avel::average(a, b)", lanewise2(avg_expected)))
        I.append(Inst("midpoint", VV, "V", "avel::midpoint(a, b)", lanewise2(mid_expected)))
        I[-1].expect_alt = [lanewise2(mid_alt)]
        if vt.signed:
            ab = lambda c, x: T.select(T.msb(x), T.neg(x), x)
            I.append(Inst("abs", [("V", "a")], "V", "avel::abs(a)", lanewise1(ab)))
            I.append(Inst("neg_abs", [("V", "a")], "V", "avel::neg_abs(a)",
                          lanewise1(lambda c, x: T.neg(T.select(T.msb(x), T.neg(x), x)))))
            I.append(Inst("negate", MV, "V", "avel::negate(m, a)",
                          lambda c: c.pack([T.select(mb, T.neg(x), x) for mb, x in zip(c.mbits("m"), c.lanes("a"))])))
    else:
        clr = lambda c, x: T.concat([T.slice_(x, 0, eb - 1), T.const(1, 0)])
        st = lambda c, x: T.concat([T.slice_(x, 0, eb - 1), T.const(1, 1)])
        I.append(Inst("fabs", [("V", "a")], "V", "avel::abs(a)", lanewise1(clr)))
        I.append(Inst("fneg_abs", [("V", "a")], "V", "avel::neg_abs(a)", lanewise1(st)))
        I.append(Inst("fnegate", MV, "V", "avel::negate(m, a)",
                      lambda c: c.pack([T.concat([T.slice_(x, 0, eb - 1), T.xor(T.msb(x), mb)])
                                        for mb, x in zip(c.mbits("m"), c.lanes("a"))])))
        I.append(Inst("fcopysign", VV, "V", "avel::copysign(a, b)",
                      lanewise2(lambda c, x, y: T.concat([T.slice_(x, 0, eb - 1), T.msb(y)]))))
        I.append(Inst("fmin", VV, "V", "avel::min(a, b)", None, judge=judge_fminmax("min")))
        I.append(Inst("fmax", VV, "V", "avel::max(a, b)", None, judge=judge_fminmax("max")))
        I.append(Inst("fminmax0", VV, "V", "avel::minmax(a, b)[0]", None, judge=judge_fminmax("min")))
        I.append(Inst("fminmax1", VV, "V", "avel::minmax(a, b)[1]", None, judge=judge_fminmax("max")))
    return I


def judge_fminmax(which):
    """float min/max for non-NaN inputs: lane must be select(fcmp P(x,y), p, q)
    over the same lane of a and b that picks the smaller/larger operand in the
    'less' and 'greater' orderings (either operand when equal)."""
    from common import HOLDS, REFUTED, UNDECIDED

    def j(ctx, inst, S):
        vt = ctx.vt
        eb = vt.eb
        actual = S.ret
        rule = "float %s: per lane select(fcmp(a_i,b_i)) choosing the %s operand for ordered inputs" % (
            which, "smaller" if which == "min" else "larger")
        if actual is None or actual[1] != vt.bits:
            return UNDECIDED, "no value", rule, None
        for i in range(vt.n):
            a, b = T.slice_(ctx.args["a"], i * eb, eb), T.slice_(ctx.args["b"], i * eb, eb)
            t = T.slice_(actual, i * eb, eb)
            if t[0] in ("call:llvm.minnum", "call:llvm.maxnum", "call:llvm.minimum", "call:llvm.maximum"):
                ok = ("min" in t[0]) == (which == "min") and {id(t[2]), id(t[3])} == {id(a), id(b)}
                if ok:
                    continue
                return REFUTED, T.show(t, 4, ctx.names), rule, {"lane": i, "note": "wrong direction or operands"}
            if t[0] != "select" or t[2][0] != "fcmp":
                return UNDECIDED, T.show(t, 4, ctx.names), rule, None
            c = t[2]
            if {id(c[3]), id(c[4])} != {id(a), id(b)} or id(t[3]) not in (id(a), id(b)) or id(t[4]) not in (id(a), id(b)):
                return UNDECIDED, T.show(t, 4, ctx.names), rule, None
            for rel in ("lt", "gt", "eq"):
                # ordering of (c[3], c[4])
                x_is_a = c[3] is a
                r = rel if x_is_a else {"lt": "gt", "gt": "lt", "eq": "eq"}[rel]
                truth = {"oeq": r == "eq", "one": r != "eq", "olt": r == "lt", "ole": r != "gt", "ogt": r == "gt",
                         "oge": r != "lt", "ueq": r == "eq", "une": r != "eq", "ult": r == "lt", "ule": r != "gt",
                         "ugt": r == "gt", "uge": r != "lt", "ord": True, "uno": False}[c[2]]
                picked = t[3] if truth else t[4]
                if rel == "eq":
                    continue
                want = a if ((rel == "lt") == (which == "min")) else b
                if picked is not want:
                    return REFUTED, T.show(t, 4, ctx.names), rule, {
                        "lane": i, "ordering": "a %s b" % rel, "picked": "a" if picked is a else "b"}
        if S.unknown:
            return UNDECIDED, "unmodelled %s" % S.unknown[:2], rule, None
        return HOLDS, T.show(T.slice_(actual, 0, eb), 4, ctx.names), rule, None
    return j


# ---------------------------------------------------------------------------
# C06 bit counting

def fam_bitcount(vt, cfg):
    if not vt.is_int:
        return []
    I = []
    eb = vt.eb
    A = [("V", "a")]
    z0 = T.const(1, 0)
    ctlz = lambda x: T.op("call:llvm.ctlz", eb, x, z0)
    cttz = lambda x: T.op("call:llvm.cttz", eb, x, z0)
    E = T.const(eb, eb)

    def add(name, f, ret="V", opt=True, dom=None):
        i = Inst(name, A, ret, "avel::%s(a)" % name, f)
        i.optional = opt
        if dom:
            i.lane_dom = dom
        I.append(i)
    add("popcount", lanewise1(lambda c, x: T.ctpop(eb, x)))
    add("countl_zero", lanewise1(lambda c, x: ctlz(x)))
    add("countl_one", lanewise1(lambda c, x: ctlz(T.not_(x))))
    add("countr_zero", lanewise1(lambda c, x: cttz(x)))
    add("countr_one", lanewise1(lambda c, x: cttz(T.not_(x))))
    add("bit_width", lanewise1(lambda c, x: T.sub(E, ctlz(x))))
    nonneg = (lambda v: v & ((1 << (eb - 1)) - 1)) if vt.signed else None
    add("bit_floor", lanewise1(lambda c, x: T.op("spec:bit_floor", eb, x)), dom=nonneg)
    add("bit_ceil", lanewise1(lambda c, x: T.op("spec:bit_ceil", eb, x)), dom=nonneg)
    I.append(Inst("has_single_bit", A, "M", "avel::has_single_bit(a)",
                  lambda c: c.pack_mask([T.icmp("eq", T.ctpop(eb, x), T.const(eb, 1)) for x in c.lanes("a")])))
    I[-1].optional = True
    add("byteswap", lanewise1(lambda c, x: T.concat([T.slice_(x, eb - 8 - 8 * i, 8) for i in range(eb // 8)])))
    if vt.signed:
        add("countl_sign", lanewise1(lambda c, x: T.sub(ctlz(T.xor(x, T.ashr_c(x, 1))), T.const(eb, 1))))
    return I


# ---------------------------------------------------------------------------
# C08 / C09 memory operations

TIER = "quick"


def n_values(w):
    if TIER == "parity":
        return [w]
    full = list(range(0, w + 3))
    if TIER == "thorough" or w <= 16:
        return full
    pick = {0, 1, 2, w // 4, w // 2 - 1, w // 2, w // 2 + 1, w - 2, w - 1, w, w + 1, w + 2}
    return sorted(x for x in pick if 0 <= x <= w + 2)


def lane_values(w):
    if TIER == "parity":
        return [0]
    if TIER == "thorough" or w <= 16:
        return list(range(w))
    return sorted({0, 1, w // 2 - 1, w // 2, w - 2, w - 1})


def exp_load(c, n):
    vt = c.vt
    m = min(n, vt.n)
    p = c.args["p"]
    parts = []
    if m:
        parts.append(T.mem(p, 0, m * vt.eb))
    if m < vt.n:
        parts.append(T.const((vt.n - m) * vt.eb, 0))
    return T.concat(parts)


def idx_lane(c, i):
    iv = c.args["idx"]
    ib = iv[1] // c.vt.n
    return T.sext(T.slice_(iv, i * ib, ib), 64)


def exp_gather(c, n):
    vt = c.vt
    m = min(n, vt.n)
    p = c.args["p"]
    out = []
    for i in range(vt.n):
        if i < m:
            addr = T.add(p, T.mul(idx_lane(c, i), T.const(64, vt.eb // 8)))
            base, off = split_addr_(addr)
            out.append(T.mem(base, off, vt.eb))
        else:
            out.append(T.const(vt.eb, 0))
    return T.concat(out)


def split_addr_(t):
    import irterm
    return irterm.split_addr(t)


def fam_memory(vt, cfg):
    from memjudge import (judge_load_value, judge_store_value, judge_footprint_load,
                          judge_footprint_store, judge_gather_value, judge_scatter_value,
                          judge_footprint_gather, judge_footprint_scatter)
    I = []
    w = vt.n
    CP = [("CP", "p")]

    def both(inst, j8, j9):
        inst.judges = {"C08": j8, "C09": j9}
        inst.pure = False
        I.append(inst)
    for n in n_values(w):
        both(Inst("load_n", CP, "V", "avel::load<V>(p, %du)" % n, lambda c, n=n: exp_load(c, n), param=n),
             judge_load_value, judge_footprint_load(n))
        both(Inst("aligned_load_n", CP, "V", "avel::aligned_load<V>(p, %du)" % n, lambda c, n=n: exp_load(c, n), param=n),
             judge_load_value, judge_footprint_load(n))
        both(Inst("store_n", [("P", "p"), ("V", "a")], "void", "avel::store(p, a, %du)" % n, None, param=n),
             judge_store_value(n), judge_footprint_store(n))
        both(Inst("aligned_store_n", [("P", "p"), ("V", "a")], "void", "avel::aligned_store(p, a, %du)" % n, None, param=n),
             judge_store_value(n), judge_footprint_store(n))
        if n <= w:
            both(Inst("load_N", CP, "V", "avel::load<V, %d>(p)" % n, lambda c, n=n: exp_load(c, n), param=n),
                 judge_load_value, judge_footprint_load(n))
            both(Inst("aligned_load_N", CP, "V", "avel::aligned_load<V, %d>(p)" % n, lambda c, n=n: exp_load(c, n), param=n),
                 judge_load_value, judge_footprint_load(n))
            both(Inst("store_N", [("P", "p"), ("V", "a")], "void", "avel::store<%d>(p, a)" % n, None, param=n),
                 judge_store_value(n), judge_footprint_store(n))
            both(Inst("aligned_store_N", [("P", "p"), ("V", "a")], "void", "avel::aligned_store<%d>(p, a)" % n, None, param=n),
                 judge_store_value(n), judge_footprint_store(n))
    # run-time n, analysed by substituting each constant for the argument
    for n in n_values(w) + ([w + 9, 255, 256, 65536, 0x7fffffff, 0x80000000, 0xffffffff] if TIER != "parity" else []):
        i = Inst("load_rt", [("CP", "p"), ("U32", "n")], "V", "avel::load<V>(p, n)", lambda c, n=n: exp_load(c, n), param=n)
        i.fname = "w_load_rt"
        i.subst = {"n": n}
        both(i, judge_load_value, judge_footprint_load(n))
        i = Inst("store_rt", [("P", "p"), ("V", "a"), ("U32", "n")], "void", "avel::store(p, a, n)", None, param=n)
        i.fname = "w_store_rt"
        i.subst = {"n": n}
        both(i, judge_store_value(n), judge_footprint_store(n))
    if vt.eb >= 32:
        GA = [("CP", "p"), ("VI", "idx")]
        SA = [("P", "p"), ("V", "a"), ("VI", "idx")]
        for n in n_values(w):
            both(Inst("gather_n", GA, "V", "avel::gather<V>(p, idx, %du)" % n, lambda c, n=n: exp_gather(c, n), param=n),
                 judge_gather_value, judge_footprint_gather(n))
            both(Inst("scatter_n", SA, "void", "avel::scatter(p, a, idx, %du)" % n, None, param=n),
                 judge_scatter_value(n), judge_footprint_scatter(n))
            if n <= w:
                both(Inst("gather_N", GA, "V", "avel::gather<V, %d>(p, idx)" % n, lambda c, n=n: exp_gather(c, n), param=n),
                     judge_gather_value, judge_footprint_gather(n))
                both(Inst("scatter_N", SA, "void", "avel::scatter<%d>(p, a, idx)" % n, None, param=n),
                     judge_scatter_value(n), judge_footprint_scatter(n))
    # arrays and lanes
    both(Inst("to_array", [("P", "p"), ("V", "a")], "void", "*reinterpret_cast<ARR*>(p) = avel::to_array(a)", None),
         judge_store_value(w), judge_footprint_store(w))
    both(Inst("from_array", [("CP", "p")], "V", "V{*reinterpret_cast<const ARR*>(p)}", lambda c: exp_load(c, w)),
         judge_load_value, judge_footprint_load(w))
    for i in lane_values(w):
        x = Inst("extract", [("V", "a")], "S", "avel::extract<%d>(a)" % i,
                 lambda c, i=i: T.slice_(c.args["a"], i * c.vt.eb, c.vt.eb), param=i)
        x.judges = {"C08": None}
        I.append(x)
        x = Inst("insert", [("V", "a"), ("S", "x")], "V", "avel::insert<%d>(a, x)" % i,
                 lambda c, i=i: c.pack([c.args["x"] if j == i else l for j, l in enumerate(c.lanes("a"))]), param=i)
        x.judges = {"C08": None}
        I.append(x)
    return I


# ---------------------------------------------------------------------------
# C17 conversions

def _tname(kind, eb, n):
    return "vec%dx%d%s" % (n, eb, kind)


def fam_convert(vt, cfg):
    I = []
    n, eb = vt.n, vt.eb
    A = [("V", "a")]
    Mm = [("M", "m")]

    def conv(name, body, target, expect, args=A, mask=False, optional=False):
        i = Inst(name, args, "M" if mask else "V", body, expect, param=target)
        i.rettype = "avel::%s::primitive" % (target.replace("vec", "mask") if mask else target)
        i.fname = "w_%s_%s" % (name, target)
        i.optional = optional
        i.target = target
        I.append(i)
    ident = lambda c: c.args["a"]
    conv("convert", "avel::convert<avel::%s>(a)[0]" % vt.name, vt.name, ident)
    mident = lambda c: c.pack_mask(c.mbits("m"))
    conv("mconvert", "avel::convert<avel::%s>(m)[0]" % vt.mask, vt.name, mident, Mm, True)
    if vt.is_int:
        other = _tname("u" if vt.signed else "i", eb, n)
        conv("convert", "avel::convert<avel::%s>(a)[0]" % other, other, ident)
        conv("ctor", "avel::%s{a}" % other, other, ident)
        om = other.replace("vec", "mask")
        conv("mconvert", "avel::convert<avel::%s>(m)[0]" % om, other, mident, Mm, True)
        conv("mctor", "avel::%s{m}" % om, other, mident, Mm, True)
    if n == 1 and vt.is_int:
        for k2 in "ui":
            for eb2 in (8, 16, 32, 64):
                t = _tname(k2, eb2, 1)
                if t == vt.name or (eb2 == eb):
                    continue

                def e(c, eb2=eb2):
                    x = c.args["a"]
                    if eb2 <= c.vt.eb:
                        return T.slice_(x, 0, eb2)
                    return (T.sext if c.vt.signed else T.zext)(x, eb2)
                conv("convert", "avel::convert<avel::%s>(a)[0]" % t, t, e, optional=True)
                conv("ctor", "avel::%s{a}" % t, t, e, optional=True)
                conv("mconvert", "avel::convert<avel::%s>(m)[0]" % t.replace("vec", "mask"), t, mident, Mm, True, optional=True)
    # bit_cast between types of identical size
    for k2 in "uif":
        for eb2 in (8, 16, 32, 64):
            if k2 == "f" and eb2 < 32:
                continue
            if (n * eb) % eb2:
                continue
            n2 = n * eb // eb2
            t = _tname(k2, eb2, n2)
            if t == vt.name or n2 > 64:
                continue
            if n == 1 and n2 != 1:
                continue
            conv("bit_cast", "avel::bit_cast<avel::%s>(a)" % t, t, ident, optional=True)
    # bit_cast between mask types of identical representation (same primitive size): every byte preserved,
    # i.e. the identity on the primitive - also when the target has fewer lanes than the source has set bits
    mbytes = lambda c: c.args["m"]
    seen_t = set()
    for k2 in "uif":
        for eb2 in (8, 16, 32, 64):
            if k2 == "f" and eb2 < 32:
                continue
            cands = []
            if (n * eb) % eb2 == 0:
                cands.append(n * eb // eb2)                 # same vector size (lane masks, and k-masks of equal width)
            if n <= 8:
                cands += [x for x in (1, 2, 4, 8)]            # k-masks held in one byte
            for n2 in cands:
                t = _tname(k2, eb2, n2)
                if t == vt.name or n2 > 64 or n2 < 1 or t in seen_t or (n == 1) != (n2 == 1):
                    continue
                seen_t.add(t)
                conv("mbit_cast", "avel::bit_cast<avel::%s>(m)" % t.replace("vec", "mask"), t, mbytes, Mm, True, optional=True)
    return I


# ---------------------------------------------------------------------------
# C13 classification / quiet comparisons, C11 rounding

def judge_fpclass(fn):
    from common import HOLDS, REFUTED, UNDECIDED
    import fieldproof

    def j(ctx, inst, S):
        vt = ctx.vt
        eb = vt.eb
        rule = ("%s: lane predicate decided on the finite partition sign x exponent x mantissa-interval "
                "induced by its field-aligned atoms, against the C library classification" % fn)
        if S.flags & {"loop", "call", "unknown-effect", "asm"} or S.ret is None:
            return UNDECIDED, "unmodelled %s %s" % (sorted(S.flags), S.unknown[:2]), rule, None
        actual = S.ret
        k = ctx.argidx["a"]
        ismask = inst.ret in ("M", "B")
        total = 0
        for i in range(vt.n):
            if ismask:
                rep = ctx.retrep
                if rep[0] == "lane":
                    lane = T.slice_(actual, i * rep[1], rep[1])
                    if not (lane[0] == "rep" or lane[1] == 1 or lane[0] == "const"):
                        return UNDECIDED, "mask lane %d not uniform: %s" % (i, T.show(lane, 3, ctx.names)), rule, None
                    bit = T.slice_(lane, 0, 1)
                elif rep[0] == "k":
                    bit = T.slice_(actual, i, 1)
                else:
                    bit = actual
                lt, rb = bit, 1
            else:
                lt, rb = T.slice_(actual, i * eb, eb), eb
            v, info = fieldproof.decide(lt, k, i * eb, eb, fn, rb)
            if v == "REFUTED":
                info["lane"] = i
                return REFUTED, T.show(lt, 5, ctx.names), rule, info
            if v == "UNDECIDED":
                return UNDECIDED, "%s ; %s" % (info, T.show(lt, 4, ctx.names)), rule, None
            total += info
        if ismask and ctx.retrep[0] == "k" and actual[1] > vt.n and not T.is_zero(T.slice_(actual, vt.n, actual[1] - vt.n)):
            return UNDECIDED, "upper k-mask bits not provably zero", rule, None
        if S.unknown:
            return UNDECIDED, "unmodelled %s" % S.unknown[:2], rule, None
        return HOLDS, "%d partition cells evaluated; %s" % (total, T.show(T.slice_(actual, 0, min(actual[1], eb)), 3, ctx.names)), rule, None
    return j


def fam_fpclass(vt, cfg):
    if not vt.is_float:
        return []
    I = []
    A = [("V", "a")]
    it = "vec%dx%di" % (vt.n, vt.eb)
    x = Inst("fpclassify", A, "V", "avel::fpclassify(a)", None, judge=judge_fpclass("fpclassify"))
    x.rettype = "avel::%s::primitive" % it
    I.append(x)
    for fn in ("isnan", "isinf", "isfinite", "isnormal", "signbit"):
        I.append(Inst(fn, A, "M", "avel::%s(a)" % fn, None, judge=judge_fpclass(fn)))
    for fn, p in (("isgreater", "ogt"), ("isgreaterequal", "oge"), ("isless", "olt"), ("islessequal", "ole"),
                  ("islessgreater", "one"), ("isunordered", "uno")):
        I.append(Inst(fn, VV, "M", "avel::%s(a, b)" % fn, cmpmask(lambda c, p=p: p)))
    return I


ROUND_VALUES = {   # f(2.5), f(-2.5), f(3.5) ; rint under (nearest, upward, downward, toward zero)
    "call:llvm.ceil": (3, -2, 4), "call:llvm.floor": (2, -3, 3), "call:llvm.trunc": (2, -2, 3),
    "call:llvm.roundeven": (2, -2, 4), "call:llvm.round": (3, -3, 4)}


def judge_round(ctx, inst, S):
    """default normal-form comparison; a different single rounding primitive on the same lane is
    refuted from the table of their values at 2.5 / -2.5 / 3.5 (rint: by rounding mode)"""
    import runner
    import lanecheck
    from common import REFUTED, UNDECIDED
    lanecheck.NUMEQ[0] = True       # "return the same number as the C library function": +0 and -0 are the same number
    try:
        v, detail, rule, wit = runner.judge_default(ctx, inst, S)
    finally:
        lanecheck.NUMEQ[0] = False
    if v != UNDECIDED or S.ret is None:
        return v, detail, rule, wit
    eb = ctx.vt.eb
    want = T.slice_(inst.expect(ctx), 0, eb)
    got = T.slice_(S.ret, 0, eb)
    if got[0].startswith("call:llvm.") and want[0].startswith("call:llvm.") and got[0] != want[0] \
            and len(got) == 3 and got[2] is want[2]:
        g, w = got[0], want[0]
        if "rint" in (g[10:], w[10:]):
            other = g if w.endswith("rint") else w
            mode = {"call:llvm.ceil": "FE_DOWNWARD", "call:llvm.floor": "FE_UPWARD", "call:llvm.trunc": "FE_UPWARD",
                    "call:llvm.roundeven": "FE_UPWARD", "call:llvm.round": "FE_DOWNWARD"}.get(other)
            if mode:
                return REFUTED, T.show(got, 3, ctx.names), rule, {
                    "lane_value": 2.5, "rounding_mode": mode,
                    "note": "%s is mode-independent, rint/nearbyint follow the current mode" % other[5:]}
        elif g in ROUND_VALUES and w in ROUND_VALUES:
            for x, a_, b_ in zip((2.5, -2.5, 3.5), ROUND_VALUES[g], ROUND_VALUES[w]):
                if a_ != b_:
                    return REFUTED, T.show(got, 3, ctx.names), rule, {"lane_value": x, "got": a_, "expected": b_}
    return v, detail, rule, wit


def fam_round(vt, cfg):
    if not vt.is_float:
        return []
    I = []
    A = [("V", "a")]
    for fn, nm in (("ceil", "call:llvm.ceil"), ("floor", "call:llvm.floor"), ("trunc", "call:llvm.trunc"),
                   ("round", "call:llvm.round"), ("nearbyint", "call:llvm.rint"), ("rint", "call:llvm.rint")):
        I.append(Inst(fn, A, "V", "avel::%s(a)" % fn, lanewise1(lambda c, x, nm=nm: T.op(nm, c.vt.eb, x)),
                      judge=judge_round))
    return I


# ---------------------------------------------------------------------------
# C11 (second clause): no operation leaves MXCSR control bits / fenv changed

FENV_WRITERS = {"fesetround", "fesetenv", "feupdateenv", "feholdexcept", "fesetexceptflag", "_controlfp",
                "__fesetround", "fedisableexcept", "feenableexcept"}


def judge_ub(ctx, inst, S):
    """E4: on IR no UB-exploiting pass has touched, look for a valid input on which an
    overflow-flagged operation feeding the result overflows, a shift amount reaches the width,
    or a zero-undef count is applied to zero"""
    import lanecheck
    import runner
    from common import HOLDS, REFUTED, UNDECIDED
    rule = "no signed overflow / over-wide shift / zero-undef count reachable on a documented input (unoptimised IR)"
    if S.ret is None:
        return UNDECIDED, "no value", rule, None
    if S.flags & {"loop", "call", "indirect-call", "asm", "alloca"}:
        return UNDECIDED, "unmodelled %s" % sorted(S.flags & {"loop", "call", "indirect-call", "asm", "alloca"}), rule, None
    argspecs = ctx.argspecs
    ld = getattr(inst, "lane_dom", None)
    if ld is not None:
        def mkdom(bits, lb):
            def dom(v):
                r = 0
                for i in range(bits // lb):
                    r |= ld((v >> (i * lb)) & ((1 << lb) - 1)) << (i * lb)
                return r
            return dom
        argspecs = [(b, lb, mkdom(b, lb) if lb else None) for (b, lb, d) in argspecs]
    env_ok = getattr(inst, "env_ok", None)
    nchk = 0
    for ne, args in enumerate(lanecheck.gen_envs(argspecs, 0)):
        if ne >= 1500:
            break
        if env_ok is not None:
            ok = env_ok(args, ctx.names)
            if ok is None:
                break
            if not ok:
                continue
        env = {"args": args}
        memo = {}
        for ob in S.oblig:
            kind, cond, opn, p1, x, y, loc = ob
            try:
                if not T.ev(cond, env, memo):
                    continue
                nchk += 1
                if kind == "overflow":
                    T._check_overflow(opn, p1, T.ev(x, env, memo), T.ev(y, env, memo), x[1], loc)
                elif kind == "shift":
                    amt = T.ev(x, env, memo)
                    if amt >= p1:
                        raise T.Poison("%s i%d by %d at %s" % (opn, p1, amt, loc or "?"))
                elif kind == "zero-undef":
                    if T.ev(x, env, memo) == 0:
                        raise T.Poison("%s(0) with is_zero_undef at %s" % (opn, loc or "?"))
                elif kind == "divq":
                    hi_, y_ = T.ev(x, env, memo), T.ev(y, env, memo)
                    if y_ == 0 or hi_ >= y_:
                        raise T.Poison("divq raises #DE: RDX=%#x divisor=%#x at %s" % (hi_, y_, loc or "?"))
                elif kind == "abs-min":
                    if T.ev(x, env, memo) == 1 << (p1 - 1):
                        raise T.Poison("abs(INT_MIN) with int_min_poison at %s" % (loc or "?"))
            except T.Poison as p:
                wit = {"args": {}, "undefined": str(p)}
                for i, v in enumerate(args):
                    wit["args"][ctx.names[i] if i < len(ctx.names) else "arg%d" % i] = hex(v)
                return REFUTED, "undefined behaviour on a valid input: %s" % p, rule, wit
            except T.Uneval:
                continue
    return HOLDS, "%d UB obligation(s) (overflow-flagged arithmetic, shifts, zero-undef counts), none violated on the input lattice" % len(S.oblig), rule, None


def judge_fenv(ctx, inst, S):
    from common import HOLDS, REFUTED, UNDECIDED
    rule = ("effect inventory: every MXCSR writer writes back the control bits (DAZ 6, masks 7-12, RC 13-14, "
            "FTZ 15) it read; no fenv writer call, no asm touching MXCSR/x87 CW")
    for name, args, loc in S.calls:
        if name in FENV_WRITERS:
            return REFUTED, "calls %s" % name, rule, {"note": "rounding mode / environment writer reachable"}
    for e in S.effects:
        if e[0] == "asm":
            if any(k in e[1] for k in ("mxcsr", "fldcw", "fnstcw", "fldenv")):
                return REFUTED, "inline asm touches the FP control word: %s" % e[1][:60], rule, None
            return UNDECIDED, "inline asm: %s" % e[1][:60], rule, None
    if "indirect-call" in S.flags:
        return UNDECIDED, "indirect call", rule, None
    ext = [n for n, a, l in S.calls if not n.startswith("_ZN4avel") and n not in __import__("irterm").LIBM_PURE
           and n not in ("memcpy", "memset", "memmove")]
    final = getattr(S, "mxcsr", None)
    if final is None:
        if "loop" in S.flags:
            # loops contain no MXCSR writer either (effects are collected per instruction)
            pass
        if ext:
            return UNDECIDED, "external call(s) %s" % sorted(set(ext))[:3], rule, None
        return HOLDS, "no MXCSR / fenv writer in the body", rule, None
    init = T.mk("mxcsr0", 32)
    ctl = T.slice_(final, 6, 10)
    if ctl is T.slice_(init, 6, 10):
        nw = sum(1 for e in S.effects if e[0] == "ldmxcsr")
        return HOLDS, "%d ldmxcsr, control bits 6..15 restored from the stmxcsr value" % nw, rule, None
    # which bit differs
    for b in range(6, 16):
        if T.slice_(final, b, 1) is not T.slice_(init, b, 1):
            nm = {6: "DAZ", 13: "RC0", 14: "RC1", 15: "FTZ"}.get(b, "exception mask %d" % b)
            fb = T.slice_(final, b, 1)
            if fb[0] == "const":
                return REFUTED, "MXCSR bit %d (%s) is left at %d" % (b, nm, fb[2]), rule, {
                    "mxcsr_bit": b, "enter_with": 1 - fb[2]}
            return UNDECIDED, "MXCSR bit %d (%s) = %s" % (b, nm, T.show(fb, 3)), rule, None
    return UNDECIDED, "MXCSR final value %s" % T.show(final, 3), rule, None


# ---------------------------------------------------------------------------
# C05 integer division

def div_env_ok(vt):
    def ok(vals, names):
        a, b = vals[names.index("a")], vals[names.index("b")]
        M = (1 << vt.eb) - 1
        for i in range(vt.n):
            x = (a >> (i * vt.eb)) & M
            y = (b >> (i * vt.eb)) & M
            if y == 0:
                return False
            if vt.signed and x == 1 << (vt.eb - 1) and y == M:
                return False
        return True
    return ok


def _div_points(eb, signed):
    """paired (n, d) lane values for division-like rules: n = q*d + r around every quotient step for a
    spread of divisors (small, 2^k +- 1, mid-range odd / even patterns, large) and quotients - a wrong
    quotient digit, a lost carry in a multiply-shift scheme or an off-by-one fix-up shows at such steps,
    not at the operand boundaries"""
    M = (1 << eb) - 1
    ds = [3, 5, 7, 10, 11, 13, 25, 100, 127, 129, 255, 257, 641, 1000, 6700417 & M, 0x3FFF & M, 0x12345 & M, 0xDEADBEEF & M,
          (1 << (eb // 2)) - 1, (1 << (eb // 2)) + 1, (1 << (eb // 2)) + 3, 3 << (eb // 2 - 1), (M // 3), (M // 3) + 1, (M // 5) * 2 + 1,
          (1 << (eb - 2)) - 3, (1 << (eb - 2)) + 5, (1 << (eb - 1)) - 7]
    out = []
    seen = set()
    for d in ds:
        d &= M
        if d < 2:
            continue
        lim = ((1 << (eb - 1)) - 1) if signed else M
        qmax = lim // d
        qs = sorted({1, 2, 3, 7, 10, 100, 255, 256, 257, 65535, 65536, 65537, 0x12345, qmax // 3, qmax // 2, qmax - 1, qmax})
        for q in qs:
            if q < 1 or q > qmax:
                continue
            for r in (0, d - 1, 1, d // 2):
                n = q * d + r
                if n > lim or (n, d) in seen:
                    continue
                seen.add((n, d))
                out.append((n, d))
                if signed:
                    out.append(((-n) & M, d))
                    out.append((n, (-d) & M))
                    out.append(((-n) & M, (-d) & M))
    # numerators just below the top of the range against divisors with regular bit patterns (their multipliers
    # have long carry chains: multi-word multiply emulations lose a carry there first)
    H = eb // 2
    HM = (1 << H) - 1
    pats = [0x5555555555555555 & HM, 0x3333333333333333 & HM, 0x0F0F0F0F0F0F0F0F & HM, 0xAAAAAAAAAAAAAAAB & HM, 0xCCCCCCCCCCCCCCCD & HM,
            0x5555555555555555 & M, 0x3333333333333333 & M, 0xAAAAAAAAAAAAAAAB & M, 0xCCCCCCCCCCCCCCCD & M, 10, 1000, 1000000007 & M, 6, 12, 24, 60]
    top = ((1 << (eb - 1)) - 1) if signed else M
    for d in pats:
        if d < 2 or (signed and d > top):
            continue
        for k in range(8):
            for n in (top - k, (top >> 1) - k, top - (k << H) if (k << H) < top else top):
                if (n, d) not in seen and n > 0:
                    seen.add((n, d))
                    out.append((n, d))
                    if signed:
                        out.append(((-n) & M, d))
    return out


def _div_magnitude_points(eb, signed):
    """numerators of every bit length against the smallest divisors, presented in all lanes at once: fast paths
    guarded by a magnitude test on the whole vector (all lanes below 2^k) are only taken by such vectors"""
    M = (1 << eb) - 1
    top = eb - 1 if signed else eb
    out = []
    for h in range(2, top):
        b = 1 << h
        fill = 0x5A5A5A5A5A5A5A5A & (b - 1)
        for n in (b | fill, b + 2):
            if n > ((1 << (eb - 1)) - 1 if signed else M):
                continue
            for d in (1, 3):
                out.append((n, d))
    return out


def with_div_points(judge, nname="a", dname="b", uniform=False):
    def j(ctx, inst, S):
        import lanecheck
        import runner
        old = lanecheck.EXTRA_POINTS[0]
        lanecheck.EXTRA_POINTS[0] = [{nname: n, dname: d} for n, d in _div_points(ctx.vt.eb, ctx.vt.signed)] + [
            {nname: n, dname: d, "_uniform": True} for n, d in _div_magnitude_points(ctx.vt.eb, ctx.vt.signed)]
        lanecheck.EXTRA_UNIFORM[0] = uniform
        try:
            return (judge or runner.judge_default)(ctx, inst, S)
        finally:
            lanecheck.EXTRA_POINTS[0] = old
            lanecheck.EXTRA_UNIFORM[0] = False
    return j


def judge_div_value(ctx, inst, S):
    """div / % on vectors: every lane whose own divisor is valid must be exact *whatever the other lanes
    hold* (a zero divisor elsewhere must not change it).  First the plain comparison on inputs whose lanes
    are all valid (identity of normal forms, truth table, witness); if that leaves the instance open, the two
    closed forms are compared again lane by lane with the lanes whose own divisor is invalid masked out on
    both sides, over inputs that do contain zero divisors."""
    import runner
    import lanecheck
    from common import HOLDS, REFUTED, UNDECIDED
    v, detail, rule, wit = runner.judge_default(ctx, inst, S)
    vt = ctx.vt
    if v != UNDECIDED or vt.n == 1 or S.ret is None or S.flags & {"loop", "call", "asm", "indirect-call"}:
        return v, detail, rule, wit
    expected = inst.expect(ctx)
    if not (lanecheck.interpreted(S.ret) and lanecheck.interpreted(expected)) or S.ret[1] != expected[1]:
        return v, detail, rule, wit
    eb = vt.eb
    # (the second clause gets its own work allowance: the first comparison may have used up the instance's)
    T.set_budget(nodes=getattr(inst, "budget_nodes", 250000), seconds=getattr(inst, "budget_s", 6))
    la, lb = ctx.lanes("a"), ctx.lanes("b")
    am, em = [], []
    for i in range(vt.n):
        valid = T.icmp("ne", lb[i], T.const(eb, 0))
        if vt.signed:
            valid = T.and_(valid, T.not_(T.and_(T.icmp("eq", la[i], T.const(eb, 1 << (eb - 1))),
                                                T.icmp("eq", lb[i], T.const(eb, (1 << eb) - 1)))))
        am.append(T.select(valid, T.slice_(S.ret, i * eb, eb), T.const(eb, 0)))
        em.append(T.select(valid, T.slice_(expected, i * eb, eb), T.const(eb, 0)))
    # complete comparison of the masked forms (ROBDDs): equal diagrams mean that every lane with a valid divisor
    # is exact whatever the other lanes hold - including zero divisors and the cross-lane early exits
    if eb <= 16:
        try:
            bv, binfo = lanecheck.bdd_lanes(T.concat(am), T.concat(em), ctx.argspecs, ctx.names, eb)
        except T.TooBig:
            bv, binfo = None, "budget"
        if bv == "HOLDS":
            return HOLDS, ("identical reduced ordered BDDs of the quotient / remainder lanes and of truncating division, both masked "
                           "to the lanes whose own divisor is valid, over all argument bits (%s)" % binfo), rule, None
        if bv == "REFUTED":
            return REFUTED, "a lane with a valid divisor differs from truncating division: " + (detail or "")[:300], rule, binfo
        detail = "%s [BDD: %s]" % ((detail or "")[:400], binfo)
        # the same comparison with the other lanes abstracted into free variables (sound for HOLDS only)
        try:
            bv2, binfo2 = lanecheck.bdd_lanes_abstract(T.concat(am), T.concat(em), ctx.argspecs, eb)
        except T.TooBig:
            bv2, binfo2 = None, "budget"
        if bv2 == "HOLDS":
            return HOLDS, ("every lane with a valid divisor equals truncating division for all values of its own operands and "
                           "every value of the conditions computed from the other lanes (ROBDD equality, %s)" % binfo2), rule, None
        detail = "%s [BDD/abstracted: %s]" % (detail[:500], binfo2)
    w = lanecheck.find_witness(T.concat(am), T.concat(em), ctx.argspecs, ctx.names, eb)
    if w is not None:
        w["note"] = "lanes whose own divisor is zero (or MIN / -1) are masked out on both sides; the differing lane has a valid divisor"
        return REFUTED, "an invalid divisor in another lane changes the result of a lane whose divisor is valid: " + (detail or "")[:300], rule, w
    return v, detail, rule, wit


def judge_notrap(ctx, inst, S):
    """no hardware division whose divisor may be zero (or MIN/-1 for sdiv) in a multi-lane div"""
    from common import HOLDS, REFUTED, UNDECIDED
    rule = ("every udiv/sdiv/urem/srem reached from a multi-lane div has a provably non-zero divisor; "
            "no asm division; no out-of-line call")
    for e in S.effects:
        if e[0] == "asm" and "div" in e[1]:
            return REFUTED, "inline asm division %s" % e[1][:40], rule, {"note": "zero divisor in one lane"}
    if S.flags & {"call", "indirect-call"}:
        return UNDECIDED, "out-of-line call %s" % [c[0] for c in S.calls][:2], rule, None
    n = 0
    und = None
    for e in S.effects:
        if e[0] != "trap-div":
            continue
        n += 1
        for dl in e[3]:
            if not T.nonzero(dl):
                return REFUTED, "%s at %s with divisor %s" % (e[1], e[2] or "?", T.show(dl, 3, ctx.names)), rule, {
                    "note": "put 0 in one lane's divisor: the whole vector operation raises SIGFPE"}
        if e[1] in ("sdiv", "srem"):
            und = "signed hardware division: MIN / -1 also traps (outside the stated domain, not decided)"
    return HOLDS, "%d hardware division(s), all with provably non-zero divisors%s" % (n, "; " + und if und else ""), rule, None


def fam_div(vt, cfg):
    if not vt.is_int:
        return []
    I = []
    q = "sdiv" if vt.signed else "udiv"
    r = "srem" if vt.signed else "urem"
    eq = lanewise2(lambda c, x, y: T.op(q, c.vt.eb, x, y))
    er = lanewise2(lambda c, x, y: T.op(r, c.vt.eb, x, y))
    for nm, body, e, pre in (("div_quot", "avel::div(a, b).quot", eq, ""), ("div_rem", "avel::div(a, b).rem", er, ""),
                             ("quo", "a / b", eq, ""), ("rem", "a % b", er, ""),
                             ("quo_assign", "a", eq, "a /= b;"), ("rem_assign", "a", er, "a %= b;")):
        i = Inst(nm, VV, "V", body, e, pre=pre)
        i.env_ok = div_env_ok(vt)
        i.judge = with_div_points(judge_div_value)
        # the operator forms are tied to div() by body equality (A-ireq); only div() itself is
        # compared with the closed form
        i.wrapper_only = not nm.startswith("div_")
        i.budget_s = 2.5 if TIER == "quick" else 8
        i.budget_nodes = 120000 if TIER == "quick" else 400000
        I.append(i)
    if vt.n > 1:
        for nm, body in (("div_quot", "avel::div(a, b).quot"), ("div_rem", "avel::div(a, b).rem")):
            i = Inst(nm, VV, "V", body, None, judge=judge_notrap)
            i.fname = "w_" + nm
            i.clause = "no-trap"
            I.append(i)
    return I


# ---------------------------------------------------------------------------
# C16 scalar overloads (reuse the lane specifications with width 1)

def judge_cmp_mixed(pred_math):
    """mixed-signedness comparison: the closed form may touch x and y only through sign tests and
    comparisons between x, y and constants; it is then a function of (msb x, msb y, unsigned order of
    x and y), a finite set of cases, each evaluated against the comparison of the mathematical values"""
    from common import HOLDS, REFUTED, UNDECIDED

    def j(ctx, inst, S):
        eb = ctx.vt.eb
        rule = "cmp_%s(%s): decided on the finite set of sign/order cases against the mathematical integers" % (
            pred_math, "/".join(k for k, n in inst.args))
        t = S.ret
        if t is None or S.flags & {"loop", "call", "asm"}:
            return UNDECIDED, "unmodelled", rule, None
        kx, ky = ctx.argidx["x"], ctx.argidx["y"]
        # fragment check
        seen = set()
        stack = [t]
        while stack:
            u = stack.pop()
            if not isinstance(u, tuple) or id(u) in seen:
                continue
            seen.add(id(u))
            if u[0] in ("const",):
                continue
            if u[0] == "arg":
                if u[1] == eb or (u[1] == 1 and u[3] == eb - 1) or (u[1] == eb - 1 and u[3] == 0):
                    continue
                return UNDECIDED, "argument bits %s used outside a comparison" % T.show(u, 2, ctx.names), rule, None
            if u[0] in ("icmp", "not", "select", "concat", "rep") or (u[0] in ("and", "or", "xor") and u[1] == 1):
                stack.extend(x for x in u[2:] if isinstance(x, tuple))
                continue
            if u[0] == "xor" and all(x[0] != "const" or x[2] in (0, 1 << (u[1] - 1)) for x in u[2:]) and sum(
                    1 for x in u[2:] if x[0] != "const") == 1:
                # sign-bit flip of a value: still a function of (msb, order of the low parts)
                stack.extend(x for x in u[2:] if isinstance(x, tuple))
                continue
            if eb <= 8:
                break           # outside the fragment, but small enough to enumerate every (x, y)
            return UNDECIDED, "operator %s" % u[0], rule, None
        else:
            stack = None
        exhaustive = stack is not None
        sx = inst.args[0][0] == "SI"      # x signed?
        M = (1 << eb) - 1
        H = 1 << (eb - 1)
        lows = list(range(H)) if exhaustive else [0, 1, 2, H - 2, H - 1]
        n = 0
        for mx in (0, 1):
            for my in (0, 1):
                for lx in lows:
                    for ly in lows:
                        x = (mx * H) | lx
                        y = (my * H) | ly
                        vx = x - (1 << eb) if (sx and mx) else x
                        vy = y - (1 << eb) if ((not sx) and my) else y
                        want = {"equal": vx == vy, "not_equal": vx != vy, "less": vx < vy, "less_equal": vx <= vy,
                                "greater": vx > vy, "greater_equal": vx >= vy}[pred_math]
                        args = [0, 0]
                        args[kx], args[ky] = x, y
                        try:
                            got = T.ev(t, {"args": args})
                        except T.Uneval as e:
                            return UNDECIDED, "not evaluable: %s" % e, rule, None
                        n += 1
                        if got != int(want):
                            return REFUTED, T.show(t, 4, ctx.names), rule, {"x": hex(x), "y": hex(y), "got": got,
                                                                            "expected": int(want)}
        return HOLDS, "%d sign/order cases; %s" % (n, T.show(t, 3, ctx.names)), rule, None
    return j


def _int_exponent(e):
    """x * 2^e for a 64-bit e is x * 2^clamp(e, INT_MIN, INT_MAX): beyond +-2^31 every finite non-zero x has
    already overflowed / underflowed, so the C function (which takes an int) is applied to the saturated value"""
    if e[1] == 32:
        return e
    lo, hi = T.const(64, 0xffffffff80000000), T.const(64, 0x7fffffff)
    return T.slice_(T.op("call:llvm.smin", 64, T.op("call:llvm.smax", 64, e, lo), hi), 0, 32)


def fam_scalar(vt, cfg):
    if vt.n != 1:
        return []
    out = []
    src = []
    for fam in ("bitcount", "select", "fpclass", "round"):
        for i in FAMILIES[fam](vt, cfg):
            src.append((fam, i))
    for i in fam_bitwise(vt, cfg):
        if i.op in ("rotl_s", "rotr_s"):
            src.append(("bitwise", i))
    for i in fam_floatarith(vt, cfg):
        if i.op == "fsqrt":
            src.append(("floatarith", i))
    KM = {"V": "S", "M": "B", "VA": "S"}
    for fam, i in src:
        args = [(KM.get(k, k), n) for k, n in i.args]
        ret = {"V": "S", "M": "B"}.get(i.ret, i.ret)
        j = Inst(i.op, args, ret, i.body, i.expect, param=i.param, pre=i.pre, judge=i.judge)
        for attr in ("env_ok", "lane_dom", "optional", "expect_alt"):
            if hasattr(i, attr):
                setattr(j, attr, getattr(i, attr))
        if getattr(i, "rettype", None):
            j.rettype = "decltype(%s)" % i.body.replace("(a)", "(S{})")
            j.nodecay = True
        j.optional = True        # a scalar overload that a type does not offer is not an obligation
        j.vector_family = fam
        out.append(j)
    if vt.is_float:
        # the scalar overloads of the <cmath>-style family (the width-1 vectors forward to them; C12 judges those):
        # a call to the C library function is the specification itself
        eb = vt.eb
        SS2 = [("S", "a"), ("S", "b")]
        two = {"fmax": lambda c: T.op("spec:c_fmax", eb, c.args["a"], c.args["b"]),
               "fmin": lambda c: T.op("spec:c_fmin", eb, c.args["a"], c.args["b"]),
               "fdim": lambda c: T.op("spec:c_fdim", eb, c.args["a"], c.args["b"]),
               "fmod": lambda c: T.op("call:fmodf" if eb == 32 else "call:fmod", eb, c.args["a"], c.args["b"])}
        for fn, e in two.items():
            j = Inst("s" + fn, SS2, "S", "avel::%s(a, b)" % fn, e, judge=judge_numeq)
            j.optional = True
            if fn in ("fmax", "fmin"):
                j.env_ok = _no_snan_lanes(vt, ("a", "b"))
            elif fn == "fdim":
                j.env_ok = _fdim_domain(vt)
            j.vector_family = "cmathx"
            j.budget_s = 2 if TIER == "quick" else 8
            out.append(j)
        for fn, sp in (("frac", "spec:c_frac"), ("logb", "spec:c_logb")):
            j = Inst("s" + fn, [("S", "a")], "S", "avel::%s(a)" % fn, lambda c, sp=sp: T.op(sp, eb, c.args["a"]), judge=judge_numeq)
            j.optional = True
            j.vector_family = "cmathx"
            out.append(j)
        for fn in ("ldexp", "scalbn"):
            # scalar ldexp / scalbn take the exponent as an integer of the float's width (the lanes of the vector
            # overloads take it from an integer vector of that width)
            j = Inst("s" + fn, [("S", "a"), ("I32" if eb == 32 else "I64", "e")], "S", "avel::%s(a, e)" % fn,
                     lambda c: T.op("spec:c_ldexp", eb, c.args["a"], _int_exponent(c.args["e"])), judge=judge_ldexp)
            j.optional = True
            j.vector_family = "cmathx"
            out.append(j)
    if vt.is_int and vt.signed:
        for nm in ("equal", "not_equal", "less", "less_equal", "greater", "greater_equal"):
            out.append(Inst("cmp_%s_us" % nm, [("US", "x"), ("SI", "y")], "B", "avel::cmp_%s(x, y)" % nm, None,
                            judge=judge_cmp_mixed(nm)))
            out.append(Inst("cmp_%s_su" % nm, [("SI", "x"), ("US", "y")], "B", "avel::cmp_%s(x, y)" % nm, None,
                            judge=judge_cmp_mixed(nm)))
    return out


# ---------------------------------------------------------------------------
# C15 vector denominators

def denom_env_ok(vt, dname):
    def ok(vals, names):
        a, d = vals[names.index("a")], vals[names.index(dname)]
        M = (1 << vt.eb) - 1
        lanes = vt.n if dname == "b" else 1
        for i in range(vt.n):
            x = (a >> (i * vt.eb)) & M
            y = (d >> ((i if dname == "b" else 0) * vt.eb)) & M
            if y == 0:
                return False
            if vt.signed and x == 1 << (vt.eb - 1) and y == M:
                return False
        return True
    return ok


def fam_vdenom(vt, cfg):
    if not vt.is_int:
        return []
    I = []
    q = "sdiv" if vt.signed else "udiv"
    r = "srem" if vt.signed else "urem"
    D = "avel::Denominator<V>"
    DS = "avel::Denominator<S>"
    # per-lane divisors
    for nm, body, o in (("vd_quot", "div(a, %s{b}).quot" % D, q), ("vd_rem", "div(a, %s{b}).rem" % D, r),
                        ("vd_quo_op", "a / %s{b}" % D, q), ("vd_rem_op", "a %% %s{b}" % D, r)):
        i = Inst(nm, VV, "V", body, lanewise2(lambda c, x, y, o=o: T.op(o, c.vt.eb, x, y)))
        i.env_ok = denom_env_ok(vt, "b")
        i.judge = with_div_points(None)
        i.clause = "value"
        i.budget_s = (4 if TIER == "quick" else 30) if vt.eb == 8 else (1.0 if TIER == "quick" else 6)
        i.wrapper_only = nm.endswith("_op")     # tied to div() by body equality
        I.append(i)
    for nm, pre, o in (("vd_quo_assign", "a /= %s{b};" % D, q), ("vd_rem_assign", "a %%= %s{b};" % D, r)):
        i = Inst(nm, VV, "V", "a", lanewise2(lambda c, x, y, o=o: T.op(o, c.vt.eb, x, y)), pre=pre)
        i.env_ok = denom_env_ok(vt, "b")
        i.clause = "value"
        i.budget_s = (4 if TIER == "quick" else 30) if vt.eb == 8 else (1.0 if TIER == "quick" else 6)
        i.wrapper_only = True                   # tied to div() by body equality
        I.append(i)
    # broadcast from a scalar denominator: same results as the vector {d,d,...}
    AS = [("V", "a"), ("S", "d")]
    for nm, body, o in (("bc_quot", "div(a, %s{%s{d}}).quot" % (D, DS), q),
                        ("bc_rem", "div(a, %s{%s{d}}).rem" % (D, DS), r)):
        i = Inst(nm, AS, "V", body,
                 lambda c, o=o: c.pack([T.op(o, c.vt.eb, x, c.args["d"]) for x in c.lanes("a")]))
        i.env_ok = denom_env_ok(vt, "d")
        i.judge = with_div_points(None, "a", "d", uniform=True)
        i.clause = "broadcast"
        i.budget_s = (4 if TIER == "quick" else 30) if vt.eb == 8 else (1.5 if TIER == "quick" else 6)
        I.append(i)
    for nm, body in (("bcref_quot", "div(a, %s{V{d}}).quot" % D), ("bcref_rem", "div(a, %s{V{d}}).rem" % D)):
        i = Inst(nm, AS, "V", body, None)
        i.wrapper_only = True
        I.append(i)
    # value() returns the divisors
    i = Inst("vd_value", [("V", "b")], "V", "%s{b}.value()" % D, lambda c: c.args["b"])
    i.clause = "value()"
    # the statement is about vectors of non-zero divisors
    i.env_ok = lambda vals, names, vt=vt: all(
        (vals[names.index("b")] >> (k * vt.eb)) & ((1 << vt.eb) - 1) for k in range(vt.n))
    I.append(i)
    i = Inst("bc_value", [("S", "d")], "V", "%s{%s{d}}.value()" % (D, DS), lambda c: c.pack([c.args["d"]] * c.vt.n))
    i.clause = "value()"
    i.env_ok = lambda vals, names: vals[names.index("d")] != 0
    I.append(i)
    return I


# ---------------------------------------------------------------------------
# C19 API parity: existence + definedness of every catalogue operation

def judge_parity(ctx, inst, S):
    from common import HOLDS, REFUTED, UNDECIDED
    rule = "the wrapper compiles and every avel:: function it reaches is defined"
    m = ctx.module
    und = [nm for nm, a_, l in S.calls if nm.startswith("_ZN4avel") and m["functions"].get(nm, {}).get("decl")]
    if und:
        return REFUTED, "calls the declared but undefined %s" % und[0][:90], rule, None
    return HOLDS, "compiles; no undefined avel callee", rule, None


def fam_floatmisc(vt, cfg):
    """the remaining documented float API (C12 functions, fmod / operator%): existence only"""
    if not vt.is_float:
        return []
    I = []
    A = [("V", "a")]
    iv = "avel::vec%dx%di" % (vt.n, vt.eb)
    for fn in ("fmax", "fmin", "fdim", "fmod"):
        I.append(Inst(fn, VV, "V", "avel::%s(a, b)" % fn, None))
    I.append(Inst("frem_op", VV, "V", "a % b", None))
    I.append(Inst("frem_assign", VV, "V", "a", None, pre="a %= b;"))
    for fn in ("frac", "logb"):
        I.append(Inst(fn, A, "V", "avel::%s(a)" % fn, None))
    i = Inst("ilogb", A, "V", "avel::ilogb(a)", None)
    i.rettype = iv + "::primitive"
    I.append(i)
    i = Inst("frexp", [("V", "a"), ("P2", "e")], "V", "avel::frexp(a, reinterpret_cast<%s*>(e))" % iv, None)
    I.append(i)
    for fn in ("ldexp", "scalbn"):
        i = Inst(fn, [("V", "a"), ("VI2", "e")], "V", "avel::%s(a, %s{pe})" % (fn, iv), None)
        I.append(i)
    return I


def fam_sdenom(vt, cfg):
    """scalar Denominator<T> (C14): n in 'a', divisor in 'b', both scalars"""
    if not (vt.is_int and vt.n == 1):
        return []
    I = []
    q = "sdiv" if vt.signed else "udiv"
    r = "srem" if vt.signed else "urem"
    D = "avel::Denominator<S>"
    SS = [("S", "a"), ("S", "b")]
    eq = lambda c: T.op(q, c.vt.eb, c.args["a"], c.args["b"])
    er = lambda c: T.op(r, c.vt.eb, c.args["a"], c.args["b"])
    for nm, body, e, pre in (("sd_quot", "div(a, %s{b}).quot" % D, eq, ""), ("sd_rem", "div(a, %s{b}).rem" % D, er, ""),
                             ("sd_quo_op", "a / %s{b}" % D, eq, ""), ("sd_rem_op", "a %% %s{b}" % D, er, ""),
                             ("sd_quo_assign", "a", eq, "a /= %s{b};" % D), ("sd_rem_assign", "a", er, "a %%= %s{b};" % D)):
        i = Inst(nm, SS, "S", body, e, pre=pre)
        i.env_ok = denom_env_ok(vt, "b")
        i.judge = with_div_points(None)
        i.clause = "value"
        i.budget_s = 20 if vt.eb == 8 else (3 if TIER == "quick" else 10)
        i.budget_nodes = 600000
        i.wrapper_only = nm.endswith(("_op", "_assign"))
        I.append(i)
    i = Inst("sd_value", [("S", "b")], "S", "%s{b}.value()" % D, lambda c: c.args["b"])
    i.clause = "value()"
    i.env_ok = lambda vals, names: vals[names.index("b")] != 0       # the statement is about non-zero d
    I.append(i)
    return I


# ---------------------------------------------------------------------------
# C12 (partial claim): frexp/ldexp/scalbn/ilogb/logb/frac/fmax/fmin/fdim

def _no_nan_lanes(vt, names_):
    def ok(vals, names):
        import fpeval
        for nm in names_:
            if nm not in names:
                continue
            v = vals[names.index(nm)]
            for i in range(vt.n):
                if fpeval.isnan((v >> (i * vt.eb)) & ((1 << vt.eb) - 1), vt.eb):
                    return False
        return True
    return ok


def _no_snan_lanes(vt, names_):
    """fmax/fmin: the statement ("the other operand when exactly one is NaN") and the C library it names as
    the definition (glibc >= 2.25 returns a quiet NaN when an operand is a *signalling* NaN, as IEEE
    754-2008 maxNum does) disagree for signalling NaNs, so those operands are outside the decided domain"""
    def ok(vals, names):
        mb = 23 if vt.eb == 32 else 52
        for nm in names_:
            if nm not in names:
                continue
            v = vals[names.index(nm)]
            for i in range(vt.n):
                ln = (v >> (i * vt.eb)) & ((1 << vt.eb) - 1)
                e = (ln >> mb) & ((1 << (vt.eb - 1 - mb)) - 1)
                m = ln & ((1 << mb) - 1)
                if e == (1 << (vt.eb - 1 - mb)) - 1 and m and not (m >> (mb - 1)) & 1:
                    return False
        return True
    return ok


def _fdim_domain(vt):
    """no NaN operand; not both infinite with the same sign (the statement defines fdim as max(x-y, 0),
    which leaves inf - inf open)"""
    def ok(vals, names):
        import fpeval
        a, b = vals[names.index("a")], vals[names.index("b")]
        M = (1 << vt.eb) - 1
        for i in range(vt.n):
            x = fpeval.decode((a >> (i * vt.eb)) & M, vt.eb)
            y = fpeval.decode((b >> (i * vt.eb)) & M, vt.eb)
            if x[0] == "nan" or y[0] == "nan":
                return False
            if x[0] == "inf" and y[0] == "inf" and x[1] == y[1]:
                return False
        return True
    return ok


def _finite_lanes(vt):
    def ok(vals, names):
        import fpeval
        v = vals[names.index("a")]
        for i in range(vt.n):
            d = fpeval.decode((v >> (i * vt.eb)) & ((1 << vt.eb) - 1), vt.eb)
            if d[0] in ("nan", "inf"):
                return False
        return True
    return ok


def judge_numeq(ctx, inst, S):
    """closed-form comparison where float lanes are compared as numbers (+0 == -0, NaN == NaN)"""
    import runner
    import lanecheck
    lanecheck.NUMEQ[0] = True
    try:
        return runner.judge_default(ctx, inst, S)
    finally:
        lanecheck.NUMEQ[0] = False


def judge_naneq(ctx, inst, S):
    """closed-form comparison where two NaN lanes count as equal but the sign of a zero result matters
    (frexp / ldexp / scalbn: 'zeros of either sign return themselves')"""
    import runner
    import lanecheck
    lanecheck.NANEQ[0] = True
    try:
        return runner.judge_default(ctx, inst, S)
    finally:
        lanecheck.NANEQ[0] = False


def _ldexp_points(eb):
    """paired (x, e) lane values for ldexp/scalbn: results on both sides of every range boundary and
    subnormal results whose discarded bits are 0 1...1 below an odd kept bit (a scaling carried out in
    more than one rounding step rounds those twice)"""
    mb, bias, emin = (23, 127, -126) if eb == 32 else (52, 1023, -1022)
    M = (1 << eb) - 1
    pts = []

    def flt(ex, mant):      # normal number 1.mant * 2^ex
        return ((ex + bias) << mb) | (mant & ((1 << mb) - 1))
    ones = (1 << mb) - 1
    for ex in (0, -1, -5, -11, -30, emin // 2, emin + 1, emin, 3, bias):
        for pbit in (1, 2, 3, 5, 11, 12, mb // 2, mb - 2, mb - 1):
            mant = ones & ~(1 << pbit)
            e = emin - ex - (pbit + 1)          # result needs pbit+1 bits dropped
            pts.append({"a": flt(ex, mant), "e": e & M})
            if ex in (-1, -11, emin):
                pts.append({"a": flt(ex, mant) | (1 << (eb - 1)), "e": e & M})
                pts.append({"a": flt(ex, mant), "e": (e - 1) & M})
    for ex in (0, -3, emin, bias, bias - 1):
        for mant in (0, ones):
            x = flt(ex, mant)
            for r in (emin - 1, emin, emin - mb, emin - mb - 1, emin - mb - 2, bias, bias + 1, bias - 1, 0, 1, -1):
                pts.append({"a": x, "e": (r - ex) & M})
    for sub in (1, 2, 3, ones, 1 << (mb - 1), (1 << (mb - 1)) | 1):
        for e in (0, 1, -1, mb, mb + 1, bias, bias + mb, -emin, -emin + mb, -emin + mb + bias, 2 * bias, -mb):
            pts.append({"a": sub, "e": e & M})
    return pts


def judge_ldexp(ctx, inst, S):
    import lanecheck
    lanecheck.EXTRA_POINTS[0] = _ldexp_points(ctx.vt.eb)
    try:
        return judge_naneq(ctx, inst, S)
    finally:
        lanecheck.EXTRA_POINTS[0] = None


def judge_frexp_e(ctx, inst, S):
    """the exponent vector frexp stores through its pointer argument"""
    import lanecheck
    from common import HOLDS, REFUTED, UNDECIDED
    vt = ctx.vt
    rule = "frexp stores, per lane, the exponent e with x == m * 2^e, m in [0.5, 1) (0 for zeros); finite inputs"
    if S.flags & {"loop", "call", "unknown-effect", "asm"}:
        return UNDECIDED, "unmodelled %s %s" % (sorted(S.flags), S.unknown[:2]), rule, None
    p = ctx.args["e"]
    ws = [a for a in S.accesses if a.kind == "w" and a.base is p and a.value is not None]
    if not ws:
        return UNDECIDED, "no store through the exponent pointer found", rule, None
    by = {}
    for a in ws:
        for j in range(a.size):
            by[a.off + j] = T.slice_(a.value, 8 * j, 8)
    nb = vt.n * vt.eb // 8
    if sorted(by) != list(range(nb)):
        return UNDECIDED, "exponent store does not cover exactly %d bytes" % nb, rule, None
    actual = T.concat([by[j] for j in range(nb)])
    expected = T.concat([T.op("spec:c_frexp_e", vt.eb, x) for x in ctx.lanes("a")])
    v, d, w = lanecheck.compare(actual, expected, S, ctx.argspecs, ctx.names, vt.eb, pure=False, env_ok=_finite_lanes(vt))
    return v, d, rule, w


def _rebuild(t, kids):
    """t with its term children replaced, through the simplifying constructors"""
    o, w = t[0], t[1]
    it = iter(kids)
    args = [next(it) if isinstance(x, tuple) else x for x in t[2:]]
    if o == "concat":
        return T.concat(args)
    if o == "slice":
        return T.slice_(args[0], t[3], w)
    if o == "rep":
        return T.rep(w, args[0])
    if o == "not":
        return T.not_(args[0])
    if o in ("and", "or", "xor", "add", "mul"):
        return T.nary(o, w, args)
    if o == "select":
        return T.select(args[0], args[1], args[2])
    if o == "icmp":
        return T.icmp(args[0], args[1], args[2])
    return T.mk(o, w, *args)


_FCMP_TRUTH = {"oeq": "e", "ogt": "g", "oge": "ge", "olt": "l", "ole": "le", "one": "lg", "ord": "leg",
               "ueq": "eu", "ugt": "gu", "uge": "geu", "ult": "lu", "ule": "leu", "une": "lgu", "uno": "u"}


def judge_fmaxmin_cases(which):
    """C fmax / fmin as a finite case analysis (a static decision, no values involved): if a lane touches its
    operands only through float comparisons between them (and NaN tests), substituting the truth value every
    comparison has under each of the six order types of (a, b) - a < b, a > b, a == b, only a NaN, only b NaN,
    both NaN - must simplify the lane to exactly the operand the definition selects.  Complete for that
    fragment; anything else falls back to the closed-form comparison."""
    from common import HOLDS, REFUTED, UNDECIDED

    def rel(ot, x_is_a, y_is_a):
        # relation of (x, y) under the order type: one of l g e u
        if x_is_a == y_is_a:
            nan = {"a_nan": x_is_a, "b_nan": not x_is_a, "both_nan": True}.get(ot, False)
            return "u" if nan else "e"
        if ot in ("a_nan", "b_nan", "both_nan"):
            return "u"
        r = {"lt": "l", "gt": "g", "eq": "e"}[ot]
        return r if x_is_a else {"l": "g", "g": "l", "e": "e"}[r]

    def j(ctx, inst, S):
        vt = ctx.vt
        eb = vt.eb
        rule = ("%s: under each order type of (a, b) every comparison in the lane has a fixed truth value; the lane must "
                "then simplify to the operand C %s selects (the other operand when exactly one is NaN)" % (inst.op, inst.op))
        actual = S.ret
        ok = actual is not None and actual[1] == vt.bits and not (S.flags & {"loop", "call", "asm", "indirect-call"}) and not S.unknown
        want = {"lt": "b", "gt": "a", "eq": "ab", "a_nan": "b", "b_nan": "a", "both_nan": "ab"}
        if which == "min":
            want = dict(want, lt="a", gt="b")
        cases = 0
        if ok:
            for i in range(vt.n):
                a, b = T.slice_(ctx.args["a"], i * eb, eb), T.slice_(ctx.args["b"], i * eb, eb)
                t = T.slice_(actual, i * eb, eb)
                for ot in ("lt", "gt", "eq", "a_nan", "b_nan", "both_nan"):
                    memo = {}
                    bad = []

                    def sub(u):
                        r = memo.get(id(u))
                        if r is not None:
                            return r
                        if u is a or u is b or u[0] in ("const", "arg"):
                            r = u
                        elif u[0] == "fcmp":
                            x, y = u[3], u[4]
                            xs = x is a or x is b
                            ys = y is a or y is b
                            if xs and ys:
                                r = T.const(1, int(rel(ot, x is a, y is a) in _FCMP_TRUTH[u[2]]))
                            elif (xs or ys) and u[2] in ("ord", "uno") and (y if xs else x)[0] == "const":
                                z = x if xs else y
                                nan = {"a_nan": z is a, "b_nan": z is b, "both_nan": True}.get(ot, False)
                                r = T.const(1, int(nan == (u[2] == "uno")))
                            else:
                                bad.append(u)
                                r = u
                        else:
                            r = _rebuild(u, [sub(x) for x in u[2:] if isinstance(x, tuple)])
                        memo[id(u)] = r
                        return r
                    r = sub(t)
                    if bad:
                        ok = False
                        break
                    pick = "a" if r is a else "b" if r is b else None
                    if pick is None:
                        ok = False
                        break
                    if pick not in want[ot]:
                        # confirm on a representative before reporting
                        import lanecheck
                        one, two, nan = (0x3F800000, 0x40000000, 0x7FC00000) if eb == 32 else (
                            0x3FF0000000000000, 0x4000000000000000, 0x7FF8000000000000)
                        va, vb = {"lt": (one, two), "gt": (two, one), "eq": (one, one), "a_nan": (nan, one), "b_nan": (one, nan),
                                  "both_nan": (nan, nan)}[ot]
                        args = [0] * len(ctx.argspecs)
                        args[ctx.argidx["a"]] = sum(va << (l * eb) for l in range(vt.n))
                        args[ctx.argidx["b"]] = sum(vb << (l * eb) for l in range(vt.n))
                        lanecheck.NUMEQ[0] = True
                        try:
                            w = lanecheck._one_env(actual, inst.expect(ctx), args, ctx.names, eb, None, "RN", True)
                        finally:
                            lanecheck.NUMEQ[0] = False
                        if w is not None:
                            w["order_type"] = ot
                            return REFUTED, "lane %d selects operand %s when %s: %s" % (i, pick, ot, T.show(t, 4, ctx.names)), rule, w
                        ok = False
                        break
                    cases += 1
                if not ok:
                    break
        if ok and cases:
            return HOLDS, "%d (lane, order type) cases, each simplifies to the operand the definition selects; %s" % (
                cases, T.show(T.slice_(actual, 0, eb), 3, ctx.names)), rule, None
        return judge_numeq(ctx, inst, S)
    return j


def fam_cmathx(vt, cfg):
    if not vt.is_float:
        return []
    I = []
    eb = vt.eb
    A = [("V", "a")]
    iv = "avel::vec%dx%di" % (vt.n, eb)

    def add(i, env_ok=None, judge=judge_numeq):
        i.judge = judge
        if env_ok:
            i.env_ok = env_ok
        i.budget_s = 2 if TIER == "quick" else 8
        I.append(i)
    add(Inst("fmax", VV, "V", "avel::fmax(a, b)", lanewise2(lambda c, x, y: T.op("spec:c_fmax", eb, x, y))),
        env_ok=_no_snan_lanes(vt, ("a", "b")), judge=judge_fmaxmin_cases("max"))
    add(Inst("fmin", VV, "V", "avel::fmin(a, b)", lanewise2(lambda c, x, y: T.op("spec:c_fmin", eb, x, y))),
        env_ok=_no_snan_lanes(vt, ("a", "b")), judge=judge_fmaxmin_cases("min"))
    add(Inst("fdim", VV, "V", "avel::fdim(a, b)", lanewise2(lambda c, x, y: T.op("spec:c_fdim", eb, x, y))),
        env_ok=_fdim_domain(vt))
    add(Inst("frac", A, "V", "avel::frac(a)", lanewise1(lambda c, x: T.op("spec:c_frac", eb, x))))
    add(Inst("logb", A, "V", "avel::logb(a)", lanewise1(lambda c, x: T.op("spec:c_logb", eb, x))))
    i = Inst("ilogb", A, "V", "avel::ilogb(a)", lanewise1(lambda c, x: T.op("spec:c_ilogb", eb, x)))
    i.rettype = iv + "::primitive"
    add(i)
    add(Inst("frexp_m", [("V", "a"), ("P2", "e")], "V", "avel::frexp(a, reinterpret_cast<%s*>(e))" % iv,
             lanewise1(lambda c, x: T.op("spec:c_frexp_m", eb, x))), judge=judge_naneq)
    i = Inst("frexp_e", [("V", "a"), ("P2", "e")], "V", "avel::frexp(a, reinterpret_cast<%s*>(e))" % iv, None)
    i.pure = False
    add(i, judge=judge_frexp_e)
    for fn in ("ldexp", "scalbn"):
        add(Inst(fn, [("V", "a"), ("VI2", "e")], "V", "avel::%s(a, %s{pe})" % (fn, iv),
                 lambda c: c.pack([T.op("spec:c_ldexp", eb, x, y) for x, y in zip(c.lanes("a"), c.lanes("e"))])),
            judge=judge_ldexp)
    return I


FAMILIES = {
    "cmathx": fam_cmathx,
    "sdenom": fam_sdenom,
    "floatmisc": fam_floatmisc,
    "vdenom": fam_vdenom,
    "div": fam_div,
    "fpclass": fam_fpclass,
    "scalar": fam_scalar,
    "round": fam_round,
    "convert": fam_convert,
    "memory": fam_memory,
    "select": fam_select,
    "bitcount": fam_bitcount,
    "mask": fam_mask,
    "bitwise": fam_bitwise,
    "intarith": fam_intarith,
    "compare": fam_compare,
    "floatarith": fam_floatarith,
}
