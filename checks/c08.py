"""C08: loads, stores, gathers, scatters and lane access move exactly the right lanes."""
import common
import runner
from c01 import select_cfgs, type_filter

PROP = "C08"


def run(tier, a=None):
    res = common.Result(PROP, tier)
    cfgs = select_cfgs(tier, a)
    runner.run_families(res, cfgs, ["memory"], type_filter(a))
    res.trusted = ["clang 14 -O2 preserves the meaning of UB-free executions", "LLVM LangRef load/store/masked.* semantics",
                   "spec/isa.py memory intrinsic entries (SDM)"]
    return common.finish(res, explanation="byte provenance of every load/store/gather/scatter/array/lane-access "
                         "instance for every element count n in 0..width+2 (run-time n by constant substitution "
                         "into the if-converted summary) against the byte-exact specification",
                         write_floor=getattr(a, "write_floor", False))
