"""C12: integer + - * negation ++/-- are lane-wise two's-complement."""
import common
import runner


def select_cfgs(tier, a):
    cfgs = common.all_configs(tier)
    if a is not None and getattr(a, "configs", None):
        want = a.configs.split(",")
        cfgs = [c for c in common.all_configs("thorough") if c.name in want]
    return cfgs


def type_filter(a):
    if a is not None and getattr(a, "types", None):
        want = set(a.types.split(","))
        return lambda vt, cfg: vt.name in want
    return None


def run(tier, a=None):
    res = common.Result("C12", tier)
    cfgs = select_cfgs(tier, a)
    runner.run_families(res, cfgs, ["cmathx"], type_filter(a), keytag="value")
    res.trusted = ["clang 14 front end and -O2 pipeline preserve the meaning of UB-free executions",
                   "LLVM LangRef: add/sub/mul without nsw/nuw are arithmetic modulo 2^n per lane"]
    return common.finish(res, explanation="every integer vector type x configuration x "
                         "{+,-,*,unary -,++,--, compound forms}: optimised IR summarised into a "
                         "closed form and compared with add/sub/mul modulo 2^bits on the same lane",
                         write_floor=getattr(a, "write_floor", False))
