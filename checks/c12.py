"""C12 (partial claim): frexp/ldexp/scalbn/ilogb/logb/frac/fmax/fmin/fdim against reference <cmath> definitions."""
import common
import runner


def select_cfgs(tier, a):
    cfgs = common.all_configs(tier)
    if a is not None and getattr(a, "configs", None):
        want = a.configs.split(",")
        cfgs = [c for c in common.all_configs("thorough") if c.name in want]
    return cfgs


def type_filter(a):
    if a is not None and getattr(a, "types", None):
        want = set(a.types.split(","))
        return lambda vt, cfg: vt.name in want
    return None


def run(tier, a=None):
    res = common.Result("C12", tier)
    cfgs = select_cfgs(tier, a)
    runner.run_families(res, cfgs, ["cmathx"], type_filter(a), keytag="value")
    # again with -frounding-math (no folding under the default-environment assumption)
    strict_cfgs = [c for c in cfgs if tier != "quick" or c.name in ("SSE2", "AVX2", "everything")] or cfgs
    runner.run_families(res, strict_cfgs, ["cmathx"], type_filter(a), keytag="value", strictfp=True)
    res.trusted = ["clang 14 front end and -O2 pipeline preserve the meaning of UB-free executions",
                   "LLVM LangRef semantics of the IR instructions; Intel SDM semantics of the x86 intrinsics as modelled in spec/isa.py",
                   "the term normaliser, the exact IEEE evaluator (lib/fpeval.py) and the abstract interpreter (lib/absint.py, self-tested against the concrete evaluator)"]
    return common.finish(res, explanation='PARTIAL CLAIM (refutation side only beyond libm forwarding). every floating-point vector type x configuration x {frexp (mantissa and stored exponent), ldexp, scalbn, ilogb, logb, frac, fmax, fmin, fdim}: the optimised IR is summarised into a closed form; a call to the C library function itself is the specification (HOLDS); bit-manipulation and AVX-512 (getexp/getmant/scalef/fixupimm/range) forms are evaluated exactly (rationals, four rounding modes) against reference implementations of the <cmath> definitions on the IEEE boundary lattice and on paired (x, e) points: a difference is a refutation with its input, none found is UNDECIDED',
                         write_floor=getattr(a, "write_floor", False))
