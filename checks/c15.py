"""C15: vector Denominator divides each lane exactly, also when broadcast from a scalar (structural claim)."""
import json

import common
import runner
import ireq
from common import HOLDS, REFUTED, UNDECIDED
from c01 import select_cfgs, type_filter


def run(tier, a=None):
    res = common.Result("C15", tier)
    cfgs = select_cfgs(tier, a)
    tf = type_filter(a)
    jobs = runner.run_families(res, cfgs, ["vdenom"], tf)
    for job in jobs:
        if "broken" in job:
            continue
        with open(job["json"]) as fh:
            m = json.load(fh)
        F = m["functions"]
        key0 = {"cfg": job["cfg"], "type": job["type"]}
        pairs = [("vd_quo_op", "vd_quot", "same-as-div"), ("vd_rem_op", "vd_rem", "same-as-div"),
                 ("vd_quo_assign", "vd_quot", "same-as-div"), ("vd_rem_assign", "vd_rem", "same-as-div"),
                 ("bc_quot", "bcref_quot", "broadcast-vs-vector"), ("bc_rem", "bcref_rem", "broadcast-vs-vector")]
        for a_, b_, clause in pairs:
            f1, f2 = F.get("w_" + a_), F.get("w_" + b_)
            if not f1 or not f2 or f1["decl"] or f2["decl"]:
                continue        # a missing wrapper is already reported MISSING by the family run
            k = dict(key0, op=a_, clause=clause)
            rule = "optimised body of %s is bisimilar to %s" % (a_, b_)
            if ireq.equal(f1, f2):
                res.add(k, HOLDS, "bodies equal", rule)
            else:
                res.add(k, UNDECIDED, "bodies differ structurally (the closed-form clause judges the values)", rule)
    # the property demands that these operations exist: a wrapper that does not compile is a violation
    for i in res.inst:
        if i["verdict"] == common.MISSING:
            i["verdict"] = REFUTED
            i["rule"] = "Denominator<V> must be constructible from V and from Denominator<scalar>, and div / % / value() must be usable"
            i["witness"] = {"note": "instantiate this expression for the type", "compiler_says": (i.get("detail") or "")[:200]}
    res.trusted = ["clang -O2 preserves UB-free meaning", "bisimilar CFG+dataflow graphs compute the same function"]
    return common.finish(res, explanation="STRUCTURAL CLAIM. (broadcast) Denominator<V>(Denominator<scalar>(d)) must exist for every integer vector "
                         "type (the wrapper must compile) and div by it is compared, as a closed form, with truncating division of every "
                         "lane by d (refutable by witness where the construction is loop-free and interpreted); (value()) value() must be "
                         "public and return the divisors; (same-as-div) / % /= %= are bisimilar to div().quot/.rem; (value) per-lane "
                         "division by a vector denominator is compared with sdiv/udiv where interpreted, else UNDECIDED",
                         write_floor=getattr(a, "write_floor", False))
