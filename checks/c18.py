"""C18: Aligned_allocator - pairing, sufficiency, alignment, bookkeeping access discipline."""
import json

import common
import e3
import irterm
import isa
import term as T
from common import HOLDS, REFUTED, UNDECIDED, MISSING

TYPES = [("char", 1, 1), ("short", 2, 2), ("int", 4, 4), ("double", 8, 8), ("S16", 16, 1), ("S64", 64, 64)]
ALIGNS = [1, 2, 4, 8, 16, 32, 64, 4096]
NS_QUICK = [0, 1, 2, 3, 5, 7, 8, 9, 16, 17, 33, 64, 100, 4095, 4096]
PRIMS = ("malloc", "aligned_alloc", "posix_memalign", "calloc", "realloc", "_mm_malloc")
HEADER = ["#include <avel/Aligned_allocator.hpp>", "struct S16 { char b[16]; };",
          "struct alignas(64) S64 { char b[64]; };",
          "static_assert(std::is_empty<avel::Aligned_allocator<int, 64>>::value, \"allocator must be stateless\");"]


def grid():
    for tn, sz, al in TYPES:
        for A in ALIGNS:
            if A >= al:
                yield tn, sz, A


def wrappers():
    ws = []
    for tn, sz, A in grid():
        tag = "%s_%d" % (tn, A)
        ws.append(("w_alloc_" + tag, 'extern "C" %s* w_alloc_%s(std::size_t n) { avel::Aligned_allocator<%s, %d> a; return a.allocate(n); }'
                   % (tn, tag, tn, A), {"op": "allocate", "T": tn, "A": A}))
        ws.append(("w_dealloc_" + tag, 'extern "C" void w_dealloc_%s(%s* p, std::size_t n) { avel::Aligned_allocator<%s, %d> a; a.deallocate(p, n); }'
                   % (tag, tn, tn, A), {"op": "deallocate", "T": tn, "A": A}))
        ws.append(("w_alloch_" + tag, 'extern "C" %s* w_alloch_%s(std::size_t n, const void* h) { avel::Aligned_allocator<%s, %d> a; return a.allocate(n, h); }'
                   % (tn, tag, tn, A), {"op": "allocate_hint", "T": tn, "A": A}))
    return ws


def _minus(r, x):
    """r - x, cancelling x when r is a sum that has x as a term (aligned = raw + offset written as an addition)"""
    if r[0] == "add" and any(y is x for y in r[2:]):
        rest = list(r[2:])
        rest.remove(x)
        return rest[0] if len(rest) == 1 else T.nary("add", r[1], rest)
    return T.sub(r, x)


def analyse_alloc(I, fname, sz, A, n):
    rule = ("allocate(n=%d): one allocation primitive of sufficient size; result aligned to %d on every path; "
            "bookkeeping word written with an access no more aligned than provable, inside the block, holding aligned-raw" % (n, A))
    S = I.summarise(fname, [T.const(64, n)] + [None] * 3)
    if S.flags & {"loop", "indirect-call", "asm"}:
        return UNDECIDED, "unmodelled %s" % sorted(S.flags), rule, None, None
    prims = [(nm, a) for nm, a, l in S.calls if nm in PRIMS]
    other = [nm for nm, a, l in S.calls if nm not in PRIMS]
    if other:
        return UNDECIDED, "calls %s" % other[:3], rule, None, None
    if not prims and n == 0 and S.ret is not None and T.is_zero(S.ret) and not S.accesses:
        # no storage requested: a null pointer is aligned and addresses 0 bytes; the matching deallocate must
        # then be harmless for (nullptr, 0)
        return HOLDS, "allocate(0) returns nullptr without allocating", rule, None, {"prim": None, "path": "null"}
    if len(prims) != 1:
        return REFUTED, "%d allocation primitives called: %s" % (len(prims), [p[0] for p in prims]), rule, {"n": n}, None
    nm, args = prims[0]
    need = n * sz
    R = S.ret
    info = {"prim": nm}
    if nm == "malloc":
        size = args[0]
        if size[0] != "const":
            return UNDECIDED, "malloc size not constant: %s" % T.show(size, 3), rule, None, None
        raw = irterm.malloc_result("malloc", [size])
        if R is raw:
            if A > 16:
                return REFUTED, "plain malloc result returned for alignment %d > alignof(max_align_t)" % A, rule, {"n": n}, None
            if size[2] < need:
                return REFUTED, "malloc(%d) for %d bytes" % (size[2], need), rule, {"n": n}, None
            if S.accesses:
                return UNDECIDED, "unexpected memory access on the malloc path", rule, None, None
            info["path"] = "malloc"
            return HOLDS, "malloc(%d) returned directly (alignment %d <= 16)" % (size[2], A), rule, None, info
        # over-allocation path.  malloc returns storage aligned to alignof(max_align_t) = 16, so aligning
        # up to A moves the pointer by at most A - 16 bytes.
        slack = max(A - 16, 0)
        k = A.bit_length() - 1
        if not T.is_zero(T.slice_(R, 0, k)):
            return REFUTED if R[0] != "select" else UNDECIDED, "returned pointer not provably %d-aligned: %s" % (A, T.show(R, 4)), rule, {"n": n}, None
        ub = T.ubound(_minus(R, raw))
        if ub is None or ub > A - 1:
            return UNDECIDED, "aligned - raw not bounded by A-1: %s" % T.show(_minus(R, raw), 4), rule, None, None
        if size[2] < need + slack:
            return REFUTED, "over-allocation malloc(%d) cannot hold %d element bytes after aligning up by as much as %d" % (
                size[2], need, slack), rule, {"n": n, "malloc_result_mod_A": 16 if A > 16 else 0}, None
        ws = [a for a in S.accesses if a.kind == "w"]
        if len(ws) != 1:
            return REFUTED, "%d bookkeeping stores (expected 1)" % len(ws), rule, {"n": n}, None
        w = ws[0]
        if not (w.base is R and w.size == 8):
            return REFUTED, "bookkeeping store at %s%+d size %s, expected an 8-byte word after the elements" % (
                T.show(w.base, 3), w.off, w.size), rule, {"n": n}, None
        if w.off < need:
            return REFUTED, "bookkeeping word at aligned+%d overlaps the %d element bytes" % (w.off, need), rule, {"n": n}, None
        if slack + w.off + 8 > size[2]:
            return REFUTED, ("bookkeeping word at aligned+%d..+%d can lie beyond the malloc(%d) block when malloc's result is "
                             "%d mod %d (aligned = raw+%d)" % (w.off, w.off + 8, size[2], 16 % A if A > 16 else 0, A, slack)), rule, {
                                 "n": n, "sizeof_T": sz, "malloc_result_mod_A": 16}, None
        if w.value is None or (T.sub(R, w.value) is not raw and _minus(R, raw) is not w.value):
            return REFUTED, "bookkeeping word is %s, not aligned-raw" % T.show(w.value, 4), rule, {"n": n}, None
        if w.align and (w.off % w.align) != 0:
            return REFUTED, ("bookkeeping word stored with a typed align-%d store at aligned+%d: misaligned "
                             "(provable alignment %d)" % (w.align, w.off, w.off & -w.off if w.off else A)), rule, {
                                 "n": n, "sizeof_T": sz, "note": "the offset is not a multiple of the claimed alignment"}, None
        need_off = w.off
        info["path"] = "overalloc"
        info["book_off"] = need_off
        return HOLDS, "malloc(%d), result aligned to %d, offset word at aligned+%d" % (size[2], A, need_off), rule, None, info
    if nm == "aligned_alloc":
        al, size = args
        if al[0] != "const" or size[0] != "const":
            return UNDECIDED, "aligned_alloc arguments not constant", rule, None, None
        if al[2] < A or al[2] & (al[2] - 1):
            return REFUTED, "aligned_alloc alignment %d for A=%d" % (al[2], A), rule, {"n": n}, None
        if size[2] < need:
            return REFUTED, "aligned_alloc size %d < %d" % (size[2], need), rule, {"n": n}, None
        if size[2] % al[2]:
            return REFUTED, "aligned_alloc size %d is not a multiple of the alignment %d (undefined behaviour)" % (size[2], al[2]), rule, {"n": n}, None
        if R is not T.opaque(64, "call:aligned_alloc", al, size):
            return UNDECIDED, "returns %s" % T.show(R, 3), rule, None, None
        info["path"] = "aligned_alloc"
        return HOLDS, "aligned_alloc(%d, %d)" % (al[2], size[2]), rule, None, info
    if nm == "posix_memalign":
        al, size = args[1], args[2]
        if al[0] != "const" or size[0] != "const":
            return UNDECIDED, "posix_memalign arguments not constant", rule, None, None
        if al[2] < A or al[2] & (al[2] - 1) or al[2] % 8:
            return REFUTED, "posix_memalign alignment %d for A=%d" % (al[2], A), rule, {"n": n}, None
        if size[2] < need:
            return REFUTED, "posix_memalign size %d < %d" % (size[2], need), rule, {"n": n}, None
        blk = T.opaque(64, "call:posix_memalign", al, size)
        ok = R is blk or (R[0] == "select" and {id(R[3]), id(R[4])} == {id(blk), id(T.const(64, 0))})
        if not ok:
            return UNDECIDED, "returns %s" % T.show(R, 4), rule, None, None
        info["path"] = "posix_memalign"
        return HOLDS, "posix_memalign(align %d, size %d)" % (al[2], size[2]), rule, None, info
    return UNDECIDED, "primitive %s" % nm, rule, None, None


def analyse_dealloc(I, fname, sz, A, n, path, book_off):
    rule = ("deallocate(p, n=%d): exactly one free of the pointer the matching allocate obtained "
            "(p itself, or p - offset word read byte-wise from p+n*sizeof(T))" % n)
    S = I.summarise(fname, [None, T.const(64, n)])
    if S.flags & {"loop", "indirect-call", "asm"}:
        return UNDECIDED, "unmodelled %s" % sorted(S.flags), rule, None
    frees = [(nm, a) for nm, a, l in S.calls if nm in ("free", "_mm_free")]
    other = [nm for nm, a, l in S.calls if nm not in ("free", "_mm_free")]
    if other:
        return UNDECIDED, "calls %s" % other[:3], rule, None
    if path == "null" and not frees and not [a for a in S.accesses if a.base[0] != "alloca"]:
        return HOLDS, "deallocate(nullptr, 0) does nothing", rule, None
    if len(frees) != 1:
        return REFUTED, "%d calls to free" % len(frees), rule, {"n": n}
    arg = frees[0][1][0]
    p = T.arg(0, 0, 64)
    if any(a.kind == "w" and a.base[0] != "alloca" for a in S.accesses):
        return REFUTED, "deallocate writes memory", rule, {"n": n}
    if path == "null":
        rd = [a for a in S.accesses if a.base is p or (a.base[0] != "alloca" and any(lf[2] == 0 for lf in T.leaves(a.base, ("arg",))))]
        if rd:
            return REFUTED, ("allocate(%d) returned nullptr without allocating, but deallocate(p, %d) %s %d byte(s) at p%+d: "
                             "a null-pointer access" % (n, n, "reads" if rd[0].kind == "r" else "writes", rd[0].size or 0, rd[0].off)), rule, {
                                 "n": n, "p": "nullptr (the value allocate(0) returned)"}
        if arg is p:
            return HOLDS, "free(nullptr) is a no-op", rule, None
        return REFUTED, "frees %s for the null pointer allocate(0) returned" % T.show(arg, 4, ["p", "n"]), rule, {"n": n}
    if path in ("malloc", "aligned_alloc", "posix_memalign"):
        if arg is p:
            return HOLDS, "free(p)", rule, None
        return REFUTED, "frees %s although allocate returned the primitive's pointer unchanged" % T.show(arg, 4, ["p", "n"]), rule, {"n": n}
    # over-allocation
    rd = [a for a in S.accesses if a.kind == "r" and a.base is p]
    if len(rd) != 1 or rd[0].size != 8:
        return REFUTED, "expected one 8-byte read of the offset word, found %s" % [(a.off, a.size) for a in rd], rule, {"n": n}
    roff = rd[0].off
    M = T.mem(p, roff, 64)
    if T.add(arg, M) is p or arg is T.sub(p, M) or (arg[0] == "add" and set(map(id, arg[2:])) == {id(p), id(T.neg(M))}):
        if rd[0].align and rd[0].align > 1 and roff % rd[0].align:
            return REFUTED, "offset word read with an align-%d load at p+%d" % (rd[0].align, roff), rule, {"n": n}
        if book_off != roff:
            return REFUTED, "offset word read at p+%d but written at aligned+%d" % (roff, book_off), rule, {"n": n}
        return HOLDS, "free(p - *(size_t*)(p+%d))" % roff, rule, None
    return REFUTED, "frees %s" % T.show(arg, 5, ["p", "n"]), rule, {"n": n}


def run(tier, a=None):
    res = common.Result("C18", tier)
    e3.ensure_tools()
    builds = [("none", "c++11"), ("none", "c++14"), ("none", "c++17"), ("none", "c++20"), ("SSE2", "c++11"), ("SSE2", "c++17")]
    if tier == "thorough":
        builds += [("AVX2", "c++11"), ("everything", "c++20"), ("scalar_all", "c++11"), ("scalar_all", "c++17")]
    ns = NS_QUICK if tier == "quick" else sorted(set(NS_QUICK + list(range(0, 70)) + [127, 128, 129, 255, 256, 257, 1000, 4093, 4094]))
    jobs = []
    for cname, std in builds:
        cfg = common.config_by_name(cname)
        jobs.append((cfg, std, e3.TU(cfg, "allocator", HEADER, wrappers(), std=std)))
    outs = common.pmap(lambda j: _build(j[2]), jobs)
    for (cfg, std, tu), out in zip(jobs, outs):
        bk = {"cfg": cfg.name, "std": std}
        if isinstance(out, str):
            res.add(dict(bk, op="compile"), REFUTED, out[:400], "<avel/Aligned_allocator.hpp> compiles in every build",
                    {"note": "include the header alone with these flags"})
            continue
        js, missing = out
        res.add(dict(bk, op="compile"), HOLDS, "allocator TU compiles", "<avel/Aligned_allocator.hpp> compiles in every build")
        with open(js) as fh:
            m = json.load(fh)
        T.reset()
        I = irterm.Interp(m, isa.TABLE)
        miss = {json.dumps(k, sort_keys=True): msg for k, msg in missing}
        for tn, sz, A in grid():
            tag = "%s_%d" % (tn, A)
            for n in ns:
                k = dict(bk, T=tn, A=A, n=n)
                if json.dumps({"op": "allocate", "T": tn, "A": A}, sort_keys=True) in miss:
                    res.add(dict(k, op="allocate"), MISSING, "wrapper does not compile", "allocator instantiates")
                    break
                try:
                    v, d, r, w, info = analyse_alloc(I, "w_alloc_" + tag, sz, A, n)
                except Exception as e:
                    v, d, r, w, info = UNDECIDED, "analysis error %s" % e, None, None, None
                res.add(dict(k, op="allocate"), v, d, r, w)
                if info:
                    try:
                        v2, d2, r2, w2 = analyse_dealloc(I, "w_dealloc_" + tag, sz, A, n, info.get("path"), info.get("book_off"))
                    except Exception as e:
                        v2, d2, r2, w2 = UNDECIDED, "analysis error %s" % e, None, None
                    res.add(dict(k, op="deallocate"), v2, d2, r2, w2)
            # allocate(n, hint) must be the same function as allocate(n)
            import ireq
            f1, f2 = m["functions"].get("w_alloc_" + tag), m["functions"].get("w_alloch_" + tag)
            if f1 and f2 and not f1["decl"] and not f2["decl"]:
                res.add(dict(bk, T=tn, A=A, op="allocate_hint"), HOLDS if ireq.equal(f1, f2) else UNDECIDED,
                        "allocate(n, hint) bisimilar to allocate(n)", "hint overload forwards")
    res.assumptions = ["malloc/aligned_alloc/posix_memalign/free obey their C contracts (distinct live blocks do not overlap)",
                       "the allocator is stateless (static_assert is_empty in the wrapper TU) and touches no global: any history is a set "
                       "of independent allocate/deallocate pairs"]
    res.trusted = ["clang -O2 preserves UB-free meaning", "glibc allocation contracts"]
    return common.finish(res, explanation="per (T, A, build, n): the allocation primitive, its size argument, provable alignment of the returned "
                         "pointer, the bookkeeping store (location, value aligned-raw, claimed vs provable alignment) and the pointer passed to "
                         "free by the matching deallocate are derived from the optimised IR with n substituted",
                         write_floor=getattr(a, "write_floor", False))


def _build(tu):
    try:
        return tu.build()
    except common.Broken as e:
        return str(e)
