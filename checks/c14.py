"""C14: scalar Denominator<T> (partial claim: complete for the 8-bit types, refutation search beyond)."""
import json

import common
import runner
import ireq
from common import HOLDS, REFUTED, UNDECIDED
from c01 import select_cfgs, type_filter


def run(tier, a=None):
    res = common.Result("C14", tier)
    cfgs = select_cfgs(tier, a)
    if tier == "quick":
        cfgs = [c for c in cfgs if c.name in ("none", "scalar_all", "SSE2", "everything")]
    tf0 = type_filter(a)
    tf = lambda vt, cfg: vt.n == 1 and vt.is_int and (tf0 is None or tf0(vt, cfg))
    jobs = runner.run_families(res, cfgs, ["sdenom"], tf)
    runner.run_families(res, [c for c in cfgs if c.name in ("none", "scalar_all")] or cfgs[:1], ["sdenom"], tf,
                        override="judge_ub", keytag="ub", ubmode=True)
    for job in jobs:
        if "broken" in job:
            continue
        with open(job["json"]) as fh:
            m = json.load(fh)
        F = m["functions"]
        for a_, b_ in (("sd_quo_op", "sd_quot"), ("sd_rem_op", "sd_rem"), ("sd_quo_assign", "sd_quot"), ("sd_rem_assign", "sd_rem")):
            f1, f2 = F.get("w_" + a_), F.get("w_" + b_)
            if not f1 or not f2 or f1["decl"] or f2["decl"]:
                continue
            k = {"cfg": job["cfg"], "type": job["type"], "op": a_, "clause": "same-as-div"}
            rule = "optimised body of %s is bisimilar to %s" % (a_, b_)
            res.add(k, HOLDS if ireq.equal(f1, f2) else UNDECIDED, "bodies equal" if ireq.equal(f1, f2) else "bodies differ", rule)
    for i in res.inst:
        if i["verdict"] == common.MISSING:
            i["verdict"] = REFUTED
            i["rule"] = "Denominator<T> construction, div, /, %, /=, %= and value() must exist"
    res.trusted = ["clang -O2 preserves UB-free meaning"]
    return common.finish(res, explanation="PARTIAL CLAIM. div(n, Denominator<T>(d)) is summarised from optimised IR into a closed form of (n, d) and "
                         "compared with truncating division: for the 8-bit types the two closed forms are evaluated on all 2^16 (n, d) pairs "
                         "(complete); for 16/32/64-bit types on the boundary lattice only (a difference or an undefined operation is a "
                         "refutation with its input, none found is UNDECIDED); / % /= %= are tied to div by body equality; value() must "
                         "return d; UB obligations (overflow-flagged arithmetic, shifts) on unoptimised IR over the lattice",
                         write_floor=getattr(a, "write_floor", False))
