"""C02: integer comparisons follow the lane type's signedness and yield all-or-nothing lane masks."""
import common
import runner


def select_cfgs(tier, a):
    cfgs = common.all_configs(tier)
    if a is not None and getattr(a, "configs", None):
        want = a.configs.split(",")
        cfgs = [c for c in common.all_configs("thorough") if c.name in want]
    return cfgs


def type_filter(a):
    if a is not None and getattr(a, "types", None):
        want = set(a.types.split(","))
        return lambda vt, cfg: vt.name in want
    return None


def run(tier, a=None):
    res = common.Result("C02", tier)
    cfgs = select_cfgs(tier, a)
    runner.run_families(res, cfgs, ["compare"], type_filter(a))
    res.trusted = ["clang 14 front end and -O2 pipeline preserve the meaning of UB-free executions",
                   "LLVM LangRef semantics of the IR instructions; Intel SDM semantics of the x86 intrinsics as modelled in spec/isa.py",
                   "the term normaliser, the exact IEEE evaluator (lib/fpeval.py) and the abstract interpreter (lib/absint.py, self-tested against the concrete evaluator)"]
    return common.finish(res, explanation="every integer vector type x configuration x {==, !=, <, <=, >, >=}: optimised IR summarised into a closed form and compared with icmp of the type's own signedness on the same lane, every result lane being a uniform mask (k-bit, or all-ones / all-zeros lane); emulated compares (64-bit before SSE4.2, unsigned via bias / min-max) are decided by normal form, truth table (8/16-bit lanes) or refuted by a distinguishing operand pair",
                         write_floor=getattr(a, "write_floor", False))
