"""C11: ceil/floor/trunc/round/nearbyint/rint match <cmath>; no operation leaves the
rounding mode / FTZ / DAZ changed."""
import common
import runner
from c01 import select_cfgs, type_filter

FLOAT_FAMS = ["floatarith", "compare", "fpclass", "round", "select", "mask", "convert"]
ALL_FAMS = FLOAT_FAMS + ["intarith", "bitwise", "bitcount", "memory"]


def run(tier, a=None):
    res = common.Result("C11", tier)
    cfgs = select_cfgs(tier, a)
    tf = type_filter(a)
    runner.run_families(res, cfgs, ["round"], tf, keytag="value")
    # again with -frounding-math (no folding under the default-environment assumption)
    runner.run_families(res, cfgs, ["round"], tf, keytag="value", strictfp=True)
    if tier == "quick":
        ftf = (lambda vt, cfg: vt.is_float and (tf is None or tf(vt, cfg)))
        runner.run_families(res, cfgs, FLOAT_FAMS, ftf, override="judge_fenv", keytag="fenv")
    else:
        runner.run_families(res, cfgs, ALL_FAMS, tf, override="judge_fenv", keytag="fenv")
    # positive control: the MXCSR writers known on this tree must be seen
    nw = sum(1 for i in res.inst if i["key"].get("clause") == "fenv" and "ldmxcsr" in (i.get("detail") or ""))
    res.extra["mxcsr_writer_instances_seen"] = nw
    if nw == 0 and any(c.name in ("SSE2", "SSE4_1") for c in cfgs) and not (a and getattr(a, "types", None)):
        res.brk("positive control failed: no ldmxcsr writer found in any SSE2/SSE4.1 quiet comparison "
                "(isless... expand _MM_SET_EXCEPTION_STATE); the effect inventory is blind")
    res.trusted = ["SDM ROUNDPS/ROUNDPD/VRNDSCALE immediate semantics", "LLVM llvm.ceil/floor/trunc/rint = C library functions",
                   "STMXCSR/LDMXCSR are the only MXCSR accessors clang emits for these sources"]
    return common.finish(res, explanation="(value) rounding functions must be exactly one rounding primitive of the right "
                         "mode on the same lane (round-half-away emulations are listed UNDECIDED); (fenv) effect "
                         "inventory over every wrapper: each LDMXCSR must write back control bits 6..15 read by the "
                         "preceding STMXCSR (bit-level provenance), no fenv writer call, no asm",
                         write_floor=getattr(a, "write_floor", False))
