"""C06: popcount, countl/countr zero/one, countl_sign, bit_width, bit_floor, bit_ceil, has_single_bit, byteswap match <bit>."""
import common
import runner


def select_cfgs(tier, a):
    cfgs = common.all_configs(tier)
    if a is not None and getattr(a, "configs", None):
        want = a.configs.split(",")
        cfgs = [c for c in common.all_configs("thorough") if c.name in want]
    return cfgs


def type_filter(a):
    if a is not None and getattr(a, "types", None):
        want = set(a.types.split(","))
        return lambda vt, cfg: vt.name in want
    return None


def run(tier, a=None):
    res = common.Result("C06", tier)
    cfgs = select_cfgs(tier, a)
    runner.run_families(res, cfgs, ["bitcount"], type_filter(a), keytag="value")
    # E4: width-1 vectors on IR that no UB-exploiting pass has touched
    tf0 = type_filter(a)
    scal = [c for c in cfgs if c.name in ("none", "scalar_all", "X86", "POPCNT", "LZCNT", "BMI", "BMI2")]
    runner.run_families(res, scal, ["bitcount"], lambda vt, cfg: vt.n == 1 and (tf0 is None or tf0(vt, cfg)),
                        override="judge_ub", keytag="ub", ubmode=True)
    res.trusted = ["clang 14 front end and -O2 pipeline preserve the meaning of UB-free executions",
                   "LLVM LangRef semantics of the IR instructions; Intel SDM semantics of the x86 intrinsics as modelled in spec/isa.py",
                   "the term normaliser, the exact IEEE evaluator (lib/fpeval.py) and the abstract interpreter (lib/absint.py, self-tested against the concrete evaluator)"]
    return common.finish(res, explanation='every integer vector type x configuration x {popcount, countl_zero, countl_one, countr_zero, countr_one, countl_sign, bit_width, bit_floor, bit_ceil, has_single_bit, byteswap}: optimised IR summarised into a closed form and compared with ctpop/ctlz/cttz-based definitions on the same lane: identical normal form, truth table (8/16-bit lanes), or abstract interpretation (known bits x interval) under a complete case split on the position of the highest / lowest set or clear bit (32/64-bit lanes); a zero-undef count applied to zero is a refutation',
                         write_floor=getattr(a, "write_floor", False))
