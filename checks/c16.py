"""C16: scalar overloads equal the lanes of the vector functions."""
import json

import common
import runner
import ireq
import e3
import ops
from common import HOLDS, REFUTED, UNDECIDED
from c01 import select_cfgs, type_filter


def run(tier, a=None):
    res = common.Result("C16", tier)
    cfgs = select_cfgs(tier, a)
    if tier == "quick":
        # the scalar feature sets are what matters here; SIMD macro sets only change the closure
        cfgs = [c for c in cfgs if c.name in ("none", "scalar_all", "SSE2", "AVX2", "everything")]
    tf0 = type_filter(a)
    tf = lambda vt, cfg: vt.n == 1 and (tf0 is None or tf0(vt, cfg))
    jobs = runner.run_families(res, cfgs, ["scalar"], tf, keytag="scalar-vs-spec")
    runner.run_families(res, cfgs, ["scalar"], tf, override="judge_ub", keytag="ub", ubmode=True)
    # width-1 vector operation == scalar overload (bisimilar optimised bodies)
    vfams = ["bitcount", "select", "fpclass", "round", "bitwise", "floatarith"]
    runner.PROP[0] = None
    vjobs = runner.build_tus(cfgs, vfams, tf, tier=tier)
    byk = {}
    for j in vjobs:
        if "broken" not in j:
            byk[(j["cfg"], j["type"], j["fam"])] = j
    for j in jobs:
        if "broken" in j:
            continue
        with open(j["json"]) as fh:
            ms = json.load(fh)
        vt = runner._vt_by_name(j["type"])
        ops.TIER = tier

        class _C:
            name = j["cfg"]
        cache = {}
        for inst in ops.FAMILIES["scalar"](vt, _C):
            fam = getattr(inst, "vector_family", None)
            if not fam:
                continue
            vj = byk.get((j["cfg"], j["type"], fam))
            if not vj:
                continue
            if fam not in cache:
                with open(vj["json"]) as fh:
                    cache[fam] = json.load(fh)
            fs = ms["functions"].get(inst.fname)
            fv = cache[fam]["functions"].get(inst.fname)
            if not fs or not fv or fs["decl"] or fv["decl"]:
                continue
            # skip overloads that are declared but not provided
            if any(i.get("callee", "").startswith("_ZN4avel") and ms["functions"].get(i["callee"], {}).get("decl")
                   for b in fs["blocks"] for i in b["insts"] if i["op"] == "call" and i.get("callee")):
                continue
            k = {"cfg": j["cfg"], "type": j["type"], "op": inst.op, "clause": "vec1-vs-scalar"}
            if inst.param is not None:
                k["param"] = inst.param
            rule = "optimised body of the width-1 vector operation is bisimilar to the scalar overload's"
            if ireq.equal(fs, fv):
                res.add(k, HOLDS, "bodies equal", rule)
            else:
                res.add(k, UNDECIDED, "bodies differ structurally (the value clause judges each separately)", rule)
    res.trusted = ["clang -O2 preserves UB-free meaning", "bisimilar CFG+dataflow graphs compute the same function"]
    return common.finish(res, explanation="(scalar-vs-spec) every scalar overload under each scalar feature set is compared, as a "
                         "closed form, with the lane specification used for the vector operation (normal form / field partition / "
                         "sign-order case analysis for cmp_*; poison reachable on a valid input is a refutation); "
                         "(vec1-vs-scalar) width-1 vector op and scalar overload have bisimilar bodies",
                         write_floor=getattr(a, "write_floor", False))
