"""C17: conversions between vector types preserve every lane value (sign/zero extension, truncation, float<->int)."""
import common
import runner


def select_cfgs(tier, a):
    cfgs = common.all_configs(tier)
    if a is not None and getattr(a, "configs", None):
        want = a.configs.split(",")
        cfgs = [c for c in common.all_configs("thorough") if c.name in want]
    return cfgs


def type_filter(a):
    if a is not None and getattr(a, "types", None):
        want = set(a.types.split(","))
        return lambda vt, cfg: vt.name in want
    return None


def run(tier, a=None):
    res = common.Result("C17", tier)
    cfgs = select_cfgs(tier, a)
    runner.run_families(res, cfgs, ["convert"], type_filter(a))
    res.trusted = ["clang 14 front end and -O2 pipeline preserve the meaning of UB-free executions",
                   "LLVM LangRef semantics of the IR instructions; Intel SDM semantics of the x86 intrinsics as modelled in spec/isa.py",
                   "the term normaliser, the exact IEEE evaluator (lib/fpeval.py) and the abstract interpreter (lib/absint.py, self-tested against the concrete evaluator)"]
    return common.finish(res, explanation="every ordered pair of vector types with a convert<> / converting constructor x configuration: optimised IR summarised into a closed form and compared lane by lane with the C++ conversion of the element (sign extension iff the source is signed, truncation modulo 2^bits, int->float in the current rounding mode, float->int truncation, mask conversions lane-true to lane-true); result lanes beyond the source's lane count must be zero",
                         write_floor=getattr(a, "write_floor", False))
