"""C10: float + - * /, sqrt and unary minus are the IEEE operations on each lane."""
import common
import runner


def select_cfgs(tier, a):
    cfgs = common.all_configs(tier)
    if a is not None and getattr(a, "configs", None):
        want = a.configs.split(",")
        cfgs = [c for c in common.all_configs("thorough") if c.name in want]
    return cfgs


def type_filter(a):
    if a is not None and getattr(a, "types", None):
        want = set(a.types.split(","))
        return lambda vt, cfg: vt.name in want
    return None


def run(tier, a=None):
    res = common.Result("C10", tier)
    cfgs = select_cfgs(tier, a)
    runner.run_families(res, cfgs, ["floatarith"], type_filter(a))
    # the same instances compiled with -frounding-math (what AVEL's own test build uses with GCC): nothing is
    # folded under the assumption of the default rounding mode, so a form that is only right when rounding to
    # nearest (e.g. unary minus written as -0.0 - x) stays visible
    runner.run_families(res, cfgs, ["floatarith"], type_filter(a), strictfp=True)
    res.trusted = ["clang 14 front end and -O2 pipeline preserve the meaning of UB-free executions",
                   "LLVM LangRef semantics of the IR instructions; Intel SDM semantics of the x86 intrinsics as modelled in spec/isa.py",
                   "the term normaliser, the exact IEEE evaluator (lib/fpeval.py) and the abstract interpreter (lib/absint.py, self-tested against the concrete evaluator)"]
    return common.finish(res, explanation='every floating-point vector type x configuration x {+, -, *, /, compound forms, unary -, sqrt}: optimised IR summarised into a closed form and required to be exactly one IEEE operation (fadd/fsub/fmul/fdiv/llvm.sqrt, sign-bit xor for unary minus) of the current rounding mode on the same lane; forms with a static rounding override or an emulation are evaluated exactly under all four rounding modes against the IEEE operation',
                         write_floor=getattr(a, "write_floor", False))
