"""C20: prefetch hints are pure hints (effect inventory over the resolved IR)."""
import json
import os

import common
import e3
from common import HOLDS, REFUTED, UNDECIDED

LEVELS = [("L1_CACHE", 0), ("L2_CACHE", 1), ("L3_CACHE", 2)]
TYPES = [("void", None), ("char", 1), ("int", 4), ("double", 8), ("Blk", 64)]
PURE_OPS = {"phi", "icmp", "br", "add", "sub", "mul", "shl", "lshr", "and", "or", "xor", "getelementptr",
            "ret", "zext", "sext", "trunc", "bitcast", "select", "ptrtoint", "inttoptr", "switch", "unreachable",
            "freeze"}


def wrappers():
    ws = []
    for rw in ("read", "write"):
        for lv, li in LEVELS:
            for tn, sz in TYPES:
                name = "w_%s_%s_%s" % (rw, lv, tn)
                if tn == "void":
                    line = 'extern "C" void %s(const void* p, std::size_t n) { avel::prefetch_%s<avel::%s>(p, n); }' % (name, rw, lv)
                else:
                    line = 'extern "C" void %s(const %s* p, std::size_t n) { avel::prefetch_%s<avel::%s, %s>(p, n); }' % (
                        name, tn, rw, lv, tn)
                ws.append((name, line, {"op": "prefetch_" + rw, "level": lv, "type": tn}))
            name = "w_%s_%s_default" % (rw, lv)
            ws.append((name, 'extern "C" void %s(const void* p) { avel::prefetch_%s<avel::%s>(p); }' % (name, rw, lv),
                       {"op": "prefetch_" + rw, "level": lv, "type": "void-default-n"}))
    return ws


def analyse(m, fname, key, rw, level, line_size):
    f = m["functions"].get(fname)
    rule = ("body contains only address arithmetic, control flow and llvm.prefetch(p+i, rw=%d, locality=%d, data); "
            "no load/store/other call; pointer flows only into the prefetch address; stride is a positive constant" % (rw, 3 - level))
    if f is None or f["decl"]:
        return common.MISSING, "wrapper not emitted", rule, None
    npf = 0
    insts = {}
    for b in f["blocks"]:
        for i in b["insts"]:
            insts[i["id"]] = i
    for b in f["blocks"]:
        for i in b["insts"]:
            op = i["op"]
            if op == "call":
                cal = i.get("callee")
                if cal and cal.startswith("llvm.prefetch"):
                    npf += 1
                    ops = i["ops"]
                    rwv, loc, ct = ops[1], ops[2], ops[3]
                    if rwv.get("v") != rw:
                        return REFUTED, "prefetch rw operand is %s" % rwv.get("v"), rule, {"expected_rw": rw}
                    if loc.get("v") != 3 - level:
                        return REFUTED, "locality operand is %s" % loc.get("v"), rule, {"expected_locality": 3 - level}
                    if ct.get("v") != 1:
                        return REFUTED, "cache type operand is %s (instruction cache)" % ct.get("v"), rule, None
                    # address must be derived from argument 0 by GEP/bitcast only
                    a = ops[0]
                    depth = 0
                    while a["k"] == "i" and depth < 20:
                        d = insts[a["id"]]
                        if d["op"] in ("getelementptr", "bitcast"):
                            a = d["ops"][0]
                        elif d["op"] == "phi":
                            # pointer induction variable: every incoming value must derive from arg 0
                            a = d["inc"][0][0]
                        else:
                            return UNDECIDED, "prefetch address computed by %s" % d["op"], rule, None
                        depth += 1
                    if not (a["k"] == "a" and a["n"] == 0):
                        return REFUTED, "prefetch address is not derived from the pointer argument", rule, None
                    continue
                if cal and (cal.startswith("llvm.dbg") or cal.startswith("llvm.lifetime") or cal == "llvm.assume"):
                    continue
                return REFUTED, "calls %s" % (cal or i.get("asm") or "indirect"), rule, {
                    "note": "a hint function must not call anything that can fault or write"}
            if op in ("load", "store", "atomicrmw", "cmpxchg", "fence", "invoke", "alloca", "va_arg"):
                return REFUTED, "%s instruction in a prefetch function (%s)" % (op, i.get("loc", "")), rule, {
                    "note": "memory is accessed: an inaccessible pointer faults / memory may change"}
            if op not in PURE_OPS:
                return UNDECIDED, "instruction %s" % op, rule, None
    # stride: every add feeding a phi must add a positive constant equal to the cache line size
    strides = []
    for i in insts.values():
        if i["op"] == "phi":
            for v, blk in i["inc"]:
                if v["k"] == "i":
                    d = insts[v["id"]]
                    if d["op"] == "add":
                        cs = [o for o in d["ops"] if o["k"] == "ci"]
                        if cs:
                            strides.append(cs[0]["v"])
                    elif d["op"] == "getelementptr":
                        strides.append(d.get("coff"))
    for s_ in strides:
        if not s_ or s_ <= 0 or s_ >= (1 << 63):
            return REFUTED, "loop stride %s is not a positive constant: the loop need not terminate" % s_, rule, None
    if key["type"] != "void-default-n" and not strides and npf:
        return UNDECIDED, "no induction stride found", rule, None
    if npf == 0:
        return HOLDS, "no prefetch and no memory access at all (hint compiled out)", rule, None
    return HOLDS, "%d llvm.prefetch call(s), stride %s, no load/store/call" % (npf, sorted(set(strides))), rule, None


def run(tier, a=None):
    res = common.Result("C20", tier)
    e3.ensure_tools()
    names = ["none", "scalar_all", "SSE2", "AVX2", "everything"] if tier == "quick" else None
    cfgs = [c for c in common.all_configs("thorough") if names is None or c.name in names]
    header = ["#include <avel/Avel.hpp>", "#include <cstddef>", "struct Blk { char b[64]; };"]
    jobs = []
    for cfg in cfgs:
        for opt in (("-O1",), ("-O2",)):
            tu = e3.TU(cfg, "prefetch" + opt[0], header, wrappers(), opt=opt + ("-fno-unroll-loops", "-fno-vectorize"))
            jobs.append((cfg, opt, tu))

    def b(j):
        return j[2].build()
    outs = common.pmap(b, jobs)
    for (cfg, opt, tu), (js, missing) in zip(jobs, outs):
        with open(js) as fh:
            m = json.load(fh)
        miss = {json.dumps(k, sort_keys=True): msg for k, msg in missing}
        for name, line, key in wrappers():
            k = dict(key, cfg=cfg.name, opt=opt[0])
            if json.dumps(key, sort_keys=True) in miss:
                res.add(k, common.MISSING, miss[json.dumps(key, sort_keys=True)], "wrapper must compile")
                continue
            rw = 0 if key["op"].endswith("read") else 1
            lv = dict(LEVELS)[key["level"]]
            v, d, r, w = analyse(m, name, key, rw, lv, 64)
            res.add(k, v, d, r, w)
    res.extra["configurations"] = [c.name for c in cfgs]
    res.trusted = ["LLVM LangRef: llvm.prefetch has no effect on program behaviour", "SDM: PREFETCHh never faults",
                   "GCC takes the same source branch (checked by C19 branch-selection equality)"]
    c = res.counts()
    lvl = "proof" if c[HOLDS] == len(res.inst) else "other"
    return common.finish(res, level=lvl, explanation="effect inventory of every prefetch_read/prefetch_write instantiation "
                         "(3 levels x typed/untyped x default n) at -O1 and -O2: only address arithmetic, control flow and "
                         "llvm.prefetch with the right rw/locality operands; positive constant stride",
                         write_floor=getattr(a, "write_floor", False))
