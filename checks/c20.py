"""C20: prefetch hints are pure hints (effect inventory over the resolved IR)."""
import json
import os

import common
import e3
from common import HOLDS, REFUTED, UNDECIDED

LEVELS = [("L1_CACHE", 0), ("L2_CACHE", 1), ("L3_CACHE", 2)]
TYPES = [("void", None), ("char", 1), ("int", 4), ("double", 8), ("Blk", 64)]
PURE_OPS = {"phi", "icmp", "br", "add", "sub", "mul", "shl", "lshr", "and", "or", "xor", "getelementptr",
            "ret", "zext", "sext", "trunc", "bitcast", "select", "ptrtoint", "inttoptr", "switch", "unreachable",
            "freeze"}


PURE_INTRINSICS = ("llvm.usub.sat.", "llvm.uadd.sat.", "llvm.ssub.sat.", "llvm.sadd.sat.", "llvm.umin.", "llvm.umax.",
                   "llvm.smin.", "llvm.smax.", "llvm.abs.", "llvm.ctlz.", "llvm.cttz.", "llvm.ctpop.", "llvm.fshl.",
                   "llvm.fshr.", "llvm.bswap.", "llvm.bitreverse.")


def wrappers():
    ws = []
    for rw in ("read", "write"):
        for lv, li in LEVELS:
            for tn, sz in TYPES:
                name = "w_%s_%s_%s" % (rw, lv, tn)
                if tn == "void":
                    line = 'extern "C" void %s(const void* p, std::size_t n) { avel::prefetch_%s<avel::%s>(p, n); }' % (name, rw, lv)
                else:
                    line = 'extern "C" void %s(const %s* p, std::size_t n) { avel::prefetch_%s<avel::%s, %s>(p, n); }' % (
                        name, tn, rw, lv, tn)
                ws.append((name, line, {"op": "prefetch_" + rw, "level": lv, "type": tn}))
            name = "w_%s_%s_default" % (rw, lv)
            ws.append((name, 'extern "C" void %s(const void* p) { avel::prefetch_%s<avel::%s>(p); }' % (name, rw, lv),
                       {"op": "prefetch_" + rw, "level": lv, "type": "void-default-n"}))
    return ws


def analyse(m, fname, key, rw, level, line_size):
    f = m["functions"].get(fname)
    rule = ("body contains only address arithmetic, control flow and llvm.prefetch(p+i, rw=%d, locality=%d, data); "
            "no load/store/other call; pointer flows only into the prefetch address; stride is a positive constant" % (rw, 3 - level))
    if f is None or f["decl"]:
        return common.MISSING, "wrapper not emitted", rule, None
    npf = 0
    insts = {}
    for b in f["blocks"]:
        for i in b["insts"]:
            insts[i["id"]] = i
    for b in f["blocks"]:
        for i in b["insts"]:
            op = i["op"]
            if op == "call":
                cal = i.get("callee")
                if cal and cal.startswith("llvm.prefetch"):
                    npf += 1
                    ops = i["ops"]
                    rwv, loc, ct = ops[1], ops[2], ops[3]
                    if rwv.get("v") != rw:
                        return REFUTED, "prefetch rw operand is %s" % rwv.get("v"), rule, {"expected_rw": rw}
                    if loc.get("v") != 3 - level:
                        return REFUTED, "locality operand is %s" % loc.get("v"), rule, {"expected_locality": 3 - level}
                    if ct.get("v") != 1:
                        return REFUTED, "cache type operand is %s (instruction cache)" % ct.get("v"), rule, None
                    continue
                if cal and (cal.startswith("llvm.dbg") or cal.startswith("llvm.lifetime") or cal == "llvm.assume"):
                    continue
                if cal and cal.startswith(PURE_INTRINSICS) and i.get("readnone"):
                    # integer arithmetic the optimiser writes as an intrinsic (a saturating subtraction for
                    # "remaining -= min(remaining, step)", min/max, bit counts): no memory access, cannot trap
                    continue
                return REFUTED, "calls %s" % (cal or i.get("asm") or "indirect"), rule, {
                    "note": "a hint function must not call anything that can fault or write"}
            if op in ("load", "store", "atomicrmw", "cmpxchg", "fence", "invoke", "alloca", "va_arg"):
                return REFUTED, "%s instruction in a prefetch function (%s)" % (op, i.get("loc", "")), rule, {
                    "note": "memory is accessed: an inaccessible pointer faults / memory may change"}
            if op in ("udiv", "sdiv", "urem", "srem"):
                # a hardware division traps (SIGFPE) on a zero divisor: the divisor must be provably non-zero
                v_, d_, w_ = _division_safe(m, fname, f, i)
                if v_ != HOLDS:
                    return v_, d_, rule, w_
                continue
            if op not in PURE_OPS:
                return UNDECIDED, "instruction %s" % op, rule, None
    # termination: every loop must have an induction variable iv = init + k*s (s a positive constant) and an unsigned
    # exit test against a loop-invariant bound that some iv value fails before the counter wraps
    tv, td, tw = termination(m, fname, f, insts, key)
    if tv != HOLDS:
        return tv, td, rule, tw
    strides = [td]
    if npf == 0:
        return HOLDS, "no prefetch and no memory access at all (hint compiled out)", rule, None
    return HOLDS, "%d llvm.prefetch call(s), stride %s with a provably exceeded bound, no load/store/call" % (npf, strides), rule, None


def _division_safe(m, fname, f, ins):
    import irterm
    import isa
    import term as T
    I = irterm.Interp(m, isa.TABLE)
    try:
        I.summarise(fname, None)
    except Exception as e:
        return UNDECIDED, "division: cannot summarise (%s)" % e, None
    dv = ins["ops"][1]
    d = I._vals.get(dv["id"]) if dv["k"] == "i" else (I._args[dv["n"]] if dv["k"] == "a" else I.const_term(dv))
    if d is None:
        return UNDECIDED, "division: divisor term unavailable", None
    if T.nonzero(d):
        return HOLDS, "divisor provably non-zero", None
    names = ["ptr", "n"]
    for nval in (0, 1, 2, 64, 4096, (1 << 63), (1 << 64) - 1):
        for pval in (0, 0x1000, 0x7fff0000):
            try:
                if T.ev(d, {"args": [pval, nval]}) == 0:
                    return REFUTED, ("%s by %s at %s: the divisor is zero for this call, the division traps (SIGFPE)" % (
                        ins["op"], T.show(d, 3, names), ins.get("loc", "?"))), {"ptr": hex(pval), "n": nval}
            except (T.Uneval, IndexError):
                break
    return UNDECIDED, "%s whose divisor %s is not provably non-zero" % (ins["op"], T.show(d, 3, names)), None


N_BITS = 44      # byte counts up to 16 TiB: far beyond "several pages", small enough that i += 64 cannot wrap


def termination(m, fname, f, insts, key):
    """HOLDS/REFUTED/UNDECIDED, detail, witness"""
    import irterm
    import isa
    import term as T
    blocks = f["blocks"]
    phis = [i for b in blocks for i in b["insts"] if i["op"] == "phi"]
    loops = []
    for p in phis:
        for v, blk in p["inc"]:
            if v["k"] == "i":
                d = insts[v["id"]]
                if d["op"] == "add" and any(o.get("k") == "i" and o["id"] == p["id"] for o in d["ops"]):
                    cs = [o for o in d["ops"] if o["k"] == "ci"]
                    if cs:
                        loops.append((p, d, cs[0]["v"], cs[0]["bits"]))
                elif d["op"] == "getelementptr" and d["ops"][0].get("k") == "i" and d["ops"][0]["id"] == p["id"] and not d["terms"]:
                    loops.append((p, d, d["coff"] & ((1 << 64) - 1), 64))
    has_back = any(p for p in phis)
    if not phis:
        return HOLDS, "no loop", None
    if not loops:
        return UNDECIDED, "loop without a constant-stride induction variable", None
    # terms of the loop-invariant values: n is a byte/element count of at most N_BITS bits (stated assumption)
    I = irterm.Interp(m, isa.TABLE)
    nargs = len(f["args"])
    argterms = [None] * nargs
    if nargs > 1:
        argterms[1] = T.zext(T.arg(1, 0, N_BITS), 64)
    I.summarise(fname, argterms)
    vals = I._vals
    blk_of = {}
    for b in blocks:
        for i_ in b["insts"]:
            blk_of[i_["id"]] = b["id"]
    ivs = {}
    for p, nxt, s_, w in loops:
        ivs[p["id"]] = (p, nxt, s_, w)
        ivs[nxt["id"]] = (p, nxt, s_, w)
    # exit tests: conditional branches whose condition compares an induction value with an invariant
    tests = []
    for b in blocks:
        t = b["insts"][-1]
        if t["op"] == "br" and len([o for o in t["ops"] if o["k"] == "b"]) == 2 and t["ops"][0]["k"] == "i":
            c = insts[t["ops"][0]["id"]]
            if c["op"] == "icmp":
                x, y = c["ops"]
                bl = [o["id"] for o in t["ops"] if o["k"] == "b"]      # [false_dest, true_dest]
                for iv, other, sw in ((x, y, False), (y, x, True)):
                    if iv.get("k") == "i" and iv["id"] in ivs:
                        hdr = blk_of[ivs[iv["id"]][0]["id"]]
                        if bl[1] == hdr:
                            inv = False
                        elif bl[0] == hdr:
                            inv = True
                        else:
                            continue
                        tests.append((c, iv, other, sw, inv))
    if not tests:
        cd = _countdown(blocks, phis, insts, blk_of)
        if cd:
            return HOLDS, cd, None
        return UNDECIDED, "no exit test on the induction variable", None
    SWAP = {"ult": "ugt", "ugt": "ult", "ule": "uge", "uge": "ule", "eq": "eq", "ne": "ne"}
    best = None
    INV = {"ult": "uge", "uge": "ult", "ugt": "ule", "ule": "ugt", "eq": "ne", "ne": "eq"}
    for c, iv, other, sw, inv in tests:
        pred = c["pred"]
        if pred not in SWAP:
            return UNDECIDED, "signed exit test %s" % pred, None
        if sw:
            pred = SWAP[pred]
        if inv:
            pred = INV[pred]        # the loop continues while the branch condition is false
        p, nxt, s_, w = ivs[iv["id"]]
        if s_ == 0 or s_ >= (1 << (w - 1)):
            return REFUTED, "loop stride %d is not a positive constant: the loop need not terminate" % s_, {"stride": s_}
        init = None
        for v, blk in p["inc"]:
            if not (v["k"] == "i" and v["id"] == nxt["id"]):
                init = I.val(v) if v["k"] != "i" else vals.get(v["id"])
        bound = I.val(other) if other["k"] != "i" else vals.get(other["id"])
        if init is None or bound is None:
            return UNDECIDED, "induction start / bound not loop invariant", None
        off = s_ if iv["id"] == nxt["id"] else 0       # the test looks at iv (+ s if it tests the incremented value)
        M = 1 << w
        # the loop continues while  (iv + off) pred bound ; pred in ult/ule (counting up) or ne
        if pred in ("ult", "ule"):
            # proof: bound's maximum is below the largest reachable counter value
            ub = T.ubound(bound) if bound[0] != "arg" else None
            if bound[0] == "const":
                ub = bound[2]
            if ub is not None and ub < M - s_ - off:
                best = (s_, "iv %s bound, bound <= %d < 2^%d - stride" % (pred, ub, w))
                continue
            # refutation: a documented input for which no reachable counter value fails the test
            for ptr in (0, 1, 63, 64, 4095, 4096, 1 << 47, M - 64, M - 1):
                for n in (0, 1, 63, 64, 65, 4096, 12293, 1 << 20):
                    args = [ptr, n][:nargs]
                    try:
                        i0 = T.ev(init, {"args": args})
                        bd = T.ev(bound, {"args": args})
                    except T.Uneval:
                        continue
                    vmax = M - s_ + (i0 % s_)          # largest value congruent to init modulo the stride
                    top = (vmax + off) % M
                    fails_somewhere = False
                    # values taken by iv+off are all residues (i0+off) mod s; the largest one is what can exceed bound
                    largest = M - s_ + ((i0 + off) % s_)
                    if pred == "ult":
                        fails_somewhere = largest >= bd
                    else:
                        fails_somewhere = largest > bd
                    if not fails_somewhere:
                        return REFUTED, ("the loop `while (iv %s bound)` with stride %d never exits: for this input the bound is %#x, "
                                         "no counter value exceeds it before wrapping" % (pred, s_, bd)), {
                                             "ptr": hex(ptr), "n": n, "bound": hex(bd), "stride": s_}
            return UNDECIDED, "cannot bound the loop limit %s" % T.show(bound, 3, ["ptr", "n"]), None
        if pred == "ne":
            return UNDECIDED, "exit test iv != bound (termination needs a divisibility argument)", None
        return UNDECIDED, "exit test %s" % pred, None
    if best:
        return HOLDS, best[0], None
    return UNDECIDED, "no usable exit test", None


def _countdown(blocks, phis, insts, blk_of):
    """the other loop shape: a counter r = phi(start, usub.sat(r, c)) with a positive constant c strictly
    decreases while it is non-zero and then stays 0, so the loop ends on every input provided its exit test
    (a comparison of r, or of the decremented value, with a constant) sends the value 0 out of the loop.
    Every loop header of the function must have such a test; returns the detail string or None."""
    down = {}
    for p in phis:
        for v, blk in p["inc"]:
            if v["k"] != "i":
                continue
            d = insts[v["id"]]
            if d["op"] == "call" and (d.get("callee") or "").startswith("llvm.usub.sat."):
                a, b = d["ops"][0], d["ops"][1]
                if a.get("k") == "i" and a["id"] == p["id"] and b.get("k") == "ci" and 0 < b["v"] < (1 << (b["bits"] - 1)):
                    down[p["id"]] = (p, b["v"])
                    down[d["id"]] = (p, b["v"])
    if not down:
        return None
    headers = {blk_of[p["id"]] for p in phis}
    proved = {}
    for b in blocks:
        t = b["insts"][-1]
        if not (t["op"] == "br" and len([o for o in t["ops"] if o["k"] == "b"]) == 2 and t["ops"][0]["k"] == "i"):
            continue
        c = insts[t["ops"][0]["id"]]
        if c["op"] != "icmp":
            continue
        x, y = c["ops"]
        bl = [o["id"] for o in t["ops"] if o["k"] == "b"]      # [false_dest, true_dest]
        for cv, other, sw in ((x, y, False), (y, x, True)):
            if not (cv.get("k") == "i" and cv["id"] in down and other.get("k") == "ci"):
                continue
            ph, step = down[cv["id"]]
            hdr = blk_of[ph["id"]]
            if b["id"] != hdr:
                continue            # the test must run on every iteration: it ends the header block itself
            K = other["v"]
            w = other["bits"]
            l, r = (K, 0) if sw else (0, K)
            sgn = lambda v: v - (1 << w) if v >> (w - 1) else v
            res = {"eq": l == r, "ne": l != r, "ult": l < r, "ule": l <= r, "ugt": l > r, "uge": l >= r,
                   "slt": sgn(l) < sgn(r), "sle": sgn(l) <= sgn(r), "sgt": sgn(l) > sgn(r), "sge": sgn(l) >= sgn(r)}.get(c["pred"])
            if res is None:
                continue
            dest = bl[1] if res else bl[0]          # where the branch goes when the counter is 0
            if dest != hdr:
                proved[hdr] = "counter decreasing by %d (saturating at 0), exit test `%s %d` leaves the loop at 0" % (step, c["pred"], K)
    if headers and all(h in proved for h in headers):
        return "; ".join(sorted(set(proved.values())))
    return None


def run(tier, a=None):
    res = common.Result("C20", tier)
    e3.ensure_tools()
    names = ["none", "scalar_all", "SSE2", "AVX2", "everything"] if tier == "quick" else None
    cfgs = [c for c in common.all_configs("thorough") if names is None or c.name in names]
    header = ["#include <avel/Avel.hpp>", "#include <cstddef>", "struct Blk { char b[64]; };"]
    jobs = []
    for cfg in cfgs:
        for opt in (("-O1",), ("-O2",)):
            tu = e3.TU(cfg, "prefetch" + opt[0], header, wrappers(), opt=opt + ("-fno-unroll-loops", "-fno-vectorize"))
            jobs.append((cfg, opt, tu))

    def b(j):
        return j[2].build()
    outs = common.pmap(b, jobs)
    for (cfg, opt, tu), (js, missing) in zip(jobs, outs):
        with open(js) as fh:
            m = json.load(fh)
        miss = {json.dumps(k, sort_keys=True): msg for k, msg in missing}
        for name, line, key in wrappers():
            k = dict(key, cfg=cfg.name, opt=opt[0])
            if json.dumps(key, sort_keys=True) in miss:
                res.add(k, common.MISSING, miss[json.dumps(key, sort_keys=True)], "wrapper must compile")
                continue
            rw = 0 if key["op"].endswith("read") else 1
            lv = dict(LEVELS)[key["level"]]
            v, d, r, w = analyse(m, name, key, rw, lv, 64)
            res.add(k, v, d, r, w)
    res.extra["configurations"] = [c.name for c in cfgs]
    res.assumptions = ["byte / element counts are below 2^%d (the statement speaks of counts up to several pages); with that the "
                       "counter of the prefetch loop cannot wrap" % N_BITS]
    res.trusted = ["LLVM LangRef: llvm.prefetch has no effect on program behaviour", "SDM: PREFETCHh never faults",
                   "GCC takes the same source branch (checked by C19 branch-selection equality)"]
    c = res.counts()
    lvl = "proof" if c[HOLDS] == len(res.inst) else "other"
    return common.finish(res, level=lvl, explanation="effect inventory of every prefetch_read/prefetch_write instantiation "
                         "(3 levels x typed/untyped x default n) at -O1 and -O2: only address arithmetic, control flow and "
                         "llvm.prefetch with the right rw/locality operands; positive constant stride",
                         write_floor=getattr(a, "write_floor", False))
