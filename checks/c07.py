"""C07: blend/keep/clear, min/max/minmax/clamp, abs/neg_abs/negate, average, midpoint."""
import common
import runner


def select_cfgs(tier, a):
    cfgs = common.all_configs(tier)
    if a is not None and getattr(a, "configs", None):
        want = a.configs.split(",")
        cfgs = [c for c in common.all_configs("thorough") if c.name in want]
    return cfgs


def type_filter(a):
    if a is not None and getattr(a, "types", None):
        want = set(a.types.split(","))
        return lambda vt, cfg: vt.name in want
    return None


def run(tier, a=None):
    res = common.Result("C07", tier)
    import ops
    r = ops.check_alt_forms()
    if not isinstance(r, int):
        raise common.Broken(r)
    res.extra["alternative_spec_forms_checked_points"] = r
    cfgs = select_cfgs(tier, a)
    runner.run_families(res, cfgs, ["select"], type_filter(a), keytag="value")
    # E4: width-1 vectors on IR that no UB-exploiting pass has touched
    tf0 = type_filter(a)
    scal = [c for c in cfgs if c.name in ("none", "scalar_all", "X86", "POPCNT", "LZCNT", "BMI", "BMI2")]
    runner.run_families(res, scal, ["select"], lambda vt, cfg: vt.n == 1 and (tf0 is None or tf0(vt, cfg)),
                        override="judge_ub", keytag="ub", ubmode=True)
    res.trusted = ["clang 14 front end and -O2 pipeline preserve the meaning of UB-free executions",
                   "LLVM LangRef semantics of the IR instructions; Intel SDM semantics of the x86 intrinsics as modelled in spec/isa.py",
                   "the term normaliser, the exact IEEE evaluator (lib/fpeval.py) and the abstract interpreter (lib/absint.py, self-tested against the concrete evaluator)"]
    return common.finish(res, explanation="every vector type x configuration x {blend, keep, clear, min, max, minmax, "
                         "clamp, abs, neg_abs, negate(mask, x), average, midpoint, float sign operations}: optimised IR "
                         "summarised into a closed form and compared with the lane-wise definition (mathematical "
                         "average / std::midpoint in a wider type); width-1 types additionally on unoptimised IR for "
                         "undefined behaviour",
                         write_floor=getattr(a, "write_floor", False))
