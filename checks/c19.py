"""C19: every supported configuration compiles and exposes the documented type system.

The property is about the type system, so the compilers are the decision
procedure: -fsyntax-only matrices, static_assert / completeness witnesses,
compile-time constants read from IR, preprocessor line sets, and the wrapper
catalogue as the API-parity witness.  Nothing is executed."""
import json
import os
import re

import common
import e3
import runner
import ops
from common import HOLDS, REFUTED, UNDECIDED, MISSING, CLANGXX, GXX, INC, FLAG, sh, cache_path

STDS = ["c++11", "c++14", "c++17", "c++20"]
SRC = "#include <avel/Avel.hpp>\n#include <avel/Aligned_allocator.hpp>\nint avel_verif_tu;\n"
ELEMS = [("u", 8), ("u", 16), ("u", 32), ("u", 64), ("i", 8), ("i", 16), ("i", 32), ("i", 64), ("f", 32), ("f", 64)]


def _scratch(kind, *key):
    d = cache_path(kind, *key)
    os.makedirs(d, exist_ok=True)
    return d


def syntax_only(compiler, std, defines, flags, src_text, tag):
    d = _scratch("c19", compiler, std, " ".join(defines), " ".join(flags), tag, src_text)
    res = os.path.join(d, "result.json")
    if os.path.exists(res):
        with open(res) as fh:
            return json.load(fh)
    src = os.path.join(d, "t.cpp")
    with open(src, "w") as fh:
        fh.write(src_text)
    cmd = [compiler, "-std=" + std, "-fsyntax-only", "-I", INC, src] + defines + flags
    cmd += ["-ferror-limit=0"] if compiler == CLANGXX else ["-fmax-errors=0"]
    cmd += ["-Wno-undefined-inline"] if compiler == CLANGXX else []
    r = sh(cmd)
    errs = []
    for m in re.finditer(r"^([^:\n]+):(\d+):(\d+): (?:fatal )?error: (.*)$", r.stderr, re.M):
        errs.append([os.path.relpath(m.group(1), common.REPO) if m.group(1).startswith(common.REPO) else os.path.basename(m.group(1)),
                     int(m.group(2)), m.group(4)[:200]])
    out = {"rc": r.returncode, "errors": errs[:40], "tail": r.stderr[-600:] if r.returncode and not errs else ""}
    with open(res, "w") as fh:
        json.dump(out, fh)
    return out


def expected_types(cfg):
    out = set()
    for k, eb in ELEMS:
        out.add("vec1x%d%s" % (eb, k))
        if cfg.has("AVEL_SSE2"):
            out.add("vec%dx%d%s" % (128 // eb, eb, k))
        if cfg.has("AVEL_AVX2"):
            out.add("vec%dx%d%s" % (256 // eb, eb, k))
        if cfg.has("AVEL_AVX512F") and (eb >= 32 or cfg.has("AVEL_AVX512BW")):
            out.add("vec%dx%d%s" % (512 // eb, eb, k))
    return out


def expected_widths(cfg):
    """(natural, maximum) lane count per element type from the documented rule"""
    w = {}
    for k, eb in ELEMS:
        bits = [eb]
        if cfg.has("AVEL_SSE2"):
            bits.append(128)
        if cfg.has("AVEL_AVX2"):
            bits.append(256)
        if cfg.has("AVEL_AVX512F") and (eb >= 32 or cfg.has("AVEL_AVX512BW")):
            bits.append(512)
        w["%d%s" % (eb, k)] = max(bits) // eb
    return w


def ctype(k, eb):
    if k == "f":
        return "float" if eb == 32 else "double"
    return "std::%sint%d_t" % ("u" if k == "u" else "", eb)


def witness_tu(cfg):
    """one static_assert per line; (line index -> description)"""
    lines = ["#include <avel/Avel.hpp>", "#include <type_traits>",
             "template<class T, class = void> struct is_complete_ { static const bool value = false; };",
             "template<class T> struct is_complete_<T, decltype(void(sizeof(T)))> { static const bool value = true; };"]
    desc = {}
    exp = expected_types(cfg)
    for v in e3.candidate_types():
        want = v.name in exp
        desc[len(lines)] = ("exists" if want else "absent", v.name)
        lines.append("static_assert(is_complete_<%s>::value == %s, \"%s\");" % (v.cpp, "true" if want else "false", v.name))
        if want:
            m = v.cpp.replace("Vector<", "Vector_mask<")
            desc[len(lines)] = ("sizeof", v.name)
            lines.append("static_assert(sizeof(%s) == %d * sizeof(%s), \"sizeof\");" % (v.cpp, v.n, v.scalar))
            desc[len(lines)] = ("trivially_copyable", v.name)
            lines.append("static_assert(std::is_trivially_copyable<%s>::value, \"tc\");" % v.cpp)
            desc[len(lines)] = ("mask_trivial", v.name)
            lines.append("static_assert(std::is_trivial<%s>::value, \"mask trivial\");" % m)
            desc[len(lines)] = ("width_member", v.name)
            lines.append("static_assert(%s::width == %d && %s::width == %d, \"width\");" % (v.cpp, v.n, m, v.n))
            desc[len(lines)] = ("alias", v.name)
            lines.append("static_assert(std::is_same<avel::%s, %s>::value && std::is_same<avel::%s, %s>::value, \"alias\");" % (
                v.name, v.cpp, v.mask, m))
    ws = expected_widths(cfg)
    for k, eb in ELEMS:
        sfx = "%d%s" % (eb, k)
        nat = ws[sfx]
        for pre, const in (("N", "natural_width_" + sfx), ("M", "max_width_" + sfx)):
            desc[len(lines)] = ("width_const", const)
            lines.append("static_assert(avel::%s == %d, \"%s\");" % (const, nat, const))
            desc[len(lines)] = ("alias_complete", "vec%sx%s" % (pre, sfx))
            lines.append("static_assert(sizeof(avel::vec%sx%s) == avel::%s * sizeof(%s) && sizeof(avel::mask%sx%s) > 0 "
                         "&& sizeof(avel::arr%sx%s) == avel::%s * sizeof(%s), \"alias complete\");" % (
                             pre, sfx, const, ctype(k, eb), pre, sfx, pre, sfx, const, ctype(k, eb)))
    return "\n".join(lines) + "\n", desc


def preprocessed_lines(compiler, cfg, std="c++11"):
    """set of (file, line) of /repo/include that survive preprocessing with text on them"""
    d = _scratch("c19pp", compiler, cfg.name, " ".join(cfg.named), std)
    res = os.path.join(d, "lines.json")
    if os.path.exists(res):
        with open(res) as fh:
            return set(tuple(x) for x in json.load(fh))
    src = os.path.join(d, "t.cpp")
    with open(src, "w") as fh:
        fh.write(SRC)
    r = sh([compiler, "-std=" + std, "-E", "-I", INC, src] + cfg.defines + cfg.flags)
    if r.returncode != 0:
        raise common.Broken("preprocessing failed with %s for %s" % (compiler, cfg.name))
    out = set()
    cur, ln = None, 0
    for line in r.stdout.splitlines():
        m = re.match(r'# (\d+) "([^"]*)"', line)
        if m:
            ln = int(m.group(1))
            f = m.group(2)
            cur = os.path.relpath(f, common.REPO) if f.startswith(INC) else None
            continue
        if cur and line.strip():
            out.add((cur, ln))
        ln += 1
    with open(res, "w") as fh:
        json.dump(sorted(out), fh)
    return out


_dir_cache = {}


def regions(lines):
    """map surviving (file, line) pairs to conditional regions: (file, line of the nearest preceding
    #if/#elif/#else/#endif).  Robust against the two compilers attributing a multi-line macro
    invocation to different physical lines."""
    import bisect
    out = set()
    for f, ln in lines:
        d = _dir_cache.get(f)
        if d is None:
            d = [0]
            try:
                for i, l in enumerate(open(os.path.join(common.REPO, f), errors="replace"), 1):
                    s_ = l.lstrip()
                    if s_.startswith("#") and s_[1:].lstrip().startswith(("if", "elif", "else", "endif")):
                        d.append(i)
            except OSError:
                pass
            _dir_cache[f] = d
        out.add((f, d[bisect.bisect_right(d, ln) - 1]))
    return out


def enclosing_condition_mentions(path, line, words):
    """does an enclosing #if/#elif of this source line mention one of the words"""
    try:
        src = open(os.path.join(common.REPO, path), errors="replace").read().split("\n")
    except OSError:
        return False
    depth = 0
    for i in range(min(line, len(src)) - 1, -1, -1):
        s = src[i].strip()
        if s.startswith("#endif"):
            depth += 1
        elif s.startswith("#if"):
            if depth == 0:
                if any(w in s for w in words):
                    return True
            else:
                depth -= 1
        elif s.startswith("#elif") or s.startswith("#else"):
            if depth == 0 and any(w in s for w in words):
                return True
    return False


_PREDEF = {"__SSE2__": "AVEL_SSE2", "__SSE3__": "AVEL_SSE3", "__SSSE3__": "AVEL_SSSE3", "__SSE4_1__": "AVEL_SSE4_1",
           "__SSE4_2__": "AVEL_SSE4_2", "__AVX__": "AVEL_AVX", "__AVX2__": "AVEL_AVX2", "__FMA__": "AVEL_FMA",
           "__AVX512F__": "AVEL_AVX512F", "__AVX512VL__": "AVEL_AVX512VL", "__AVX512BW__": "AVEL_AVX512BW",
           "__AVX512DQ__": "AVEL_AVX512DQ", "__AVX512CD__": "AVEL_AVX512CD", "__AVX512VPOPCNTDQ__": "AVEL_AVX512VPOPCNTDQ",
           "__AVX512BITALG__": "AVEL_AVX512BITALG", "__AVX512VBMI__": "AVEL_AVX512VBMI", "__AVX512VBMI2__": "AVEL_AVX512VBMI2",
           "__GFNI__": "AVEL_GFNI", "__POPCNT__": "AVEL_POPCNT", "__LZCNT__": "AVEL_LZCNT", "__BMI__": "AVEL_BMI",
           "__BMI2__": "AVEL_BMI2"}


def flags_imply(cfg, comp=None):
    """AVEL macros of every feature the compiler itself enables under the configuration's -m flags
    (-mavx512bitalg, for instance, turns on AVX-512BW): 'naming the macros explicitly' for a comparison with
    AVEL_AUTO_DETECT means naming all of these.  Independent of AVEL's own detection code."""
    r = sh([comp or CLANGXX, "-dM", "-E", "-x", "c++", "/dev/null"] + cfg.flags)
    out = []
    for line in r.stdout.splitlines():
        parts = line.split()
        if len(parts) >= 2 and parts[0] == "#define" and parts[1] in _PREDEF and _PREDEF[parts[1]] in FLAG:
            out.append(_PREDEF[parts[1]])
    return sorted(set(out))


def width_constants(cfg, auto, comp=None):
    """natural/max width constants and provided types as compile-time constants, read from clang's IR or from
    g++'s assembly output (nothing is executed)"""
    comp = comp or CLANGXX
    d = _scratch("c19w3", cfg.name, " ".join(cfg.named), "auto" if auto else "explicit", comp)
    res = os.path.join(d, "w.json")
    if os.path.exists(res):
        with open(res) as fh:
            return json.load(fh)
    lines = ["#include <avel/Avel.hpp>",
             "template<class T, class = void> struct is_complete_ { static const bool value = false; };",
             "template<class T> struct is_complete_<T, decltype(void(sizeof(T)))> { static const bool value = true; };"]
    names = []
    for k, eb in ELEMS:
        for c in ("natural_width_%d%s" % (eb, k), "max_width_%d%s" % (eb, k)):
            lines.append('extern "C" { extern const unsigned c_%s; const unsigned c_%s = avel::%s; }' % (c, c, c))
            names.append("c_" + c)
    for v in e3.candidate_types():
        lines.append('extern "C" { extern const unsigned c_has_%s; const unsigned c_has_%s = is_complete_<%s>::value; }' % (
            v.name, v.name, v.cpp))
        names.append("c_has_" + v.name)
    src = os.path.join(d, "t.cpp")
    with open(src, "w") as fh:
        fh.write("\n".join(lines) + "\n")
    defs = ["-DAVEL_AUTO_DETECT"] if auto else sorted(set(cfg.defines) | {"-D" + m for m in flags_imply(cfg, comp)})
    if comp == CLANGXX:
        r = sh([CLANGXX, "-std=c++11", "-O0", "-S", "-emit-llvm", "-I", INC, src, "-o", os.path.join(d, "t.ll")] + defs + cfg.flags)
    else:
        r = sh([comp, "-std=c++11", "-O0", "-w", "-S", "-I", INC, src, "-o", os.path.join(d, "t.s")] + defs + cfg.flags)
    if r.returncode != 0:
        out = {"error": r.stderr[-500:]}
    elif comp == CLANGXX:
        txt = open(os.path.join(d, "t.ll")).read()
        out = {}
        for n in names:
            m = re.search(r"@%s = .*constant i32 (\d+)" % n, txt)
            out[n] = int(m.group(1)) if m else None
    else:
        txt = open(os.path.join(d, "t.s")).read()
        out = {}
        for n in names:
            m = re.search(r"^%s:\s*\n\s+\.(long|zero)\s+(\d+)" % n, txt, re.M)
            out[n] = (int(m.group(2)) if m.group(1) == "long" else 0) if m else None
    with open(res, "w") as fh:
        json.dump(out, fh)
    return out


PARITY_FAMS = ["intarith", "compare", "mask", "bitwise", "bitcount", "select", "floatarith", "fpclass", "round",
               "div", "memory", "floatmisc"]


def run(tier, a=None):
    res = common.Result("C19", tier)
    e3.ensure_tools()
    cfgs = common.all_configs(tier)
    if a is not None and getattr(a, "configs", None):
        cfgs = [c for c in common.all_configs("thorough") if c.name in a.configs.split(",")]
    stds = ["c++11", "c++17"] if tier == "quick" else STDS
    comps = [CLANGXX, GXX]

    # A. compile matrix, explicit macros and AVEL_AUTO_DETECT
    jobs = []
    for cfg in cfgs:
        for comp in comps:
            for std in stds:
                jobs.append((cfg, comp, std, "explicit", cfg.defines))
                jobs.append((cfg, comp, std, "auto_detect", ["-DAVEL_AUTO_DETECT"]))
    outs = common.pmap(lambda j: syntax_only(j[1], j[2], j[4], j[0].flags, SRC, "matrix"), jobs)
    for (cfg, comp, std, mode, _d), o in zip(jobs, outs):
        k = {"cfg": cfg.name, "compiler": comp, "std": std, "op": "compile", "mode": mode}
        rule = "<avel/Avel.hpp> and <avel/Aligned_allocator.hpp> compile"
        if o["rc"] == 0:
            res.add(k, HOLDS, "compiles", rule)
        else:
            e = o["errors"][0] if o["errors"] else ["?", 0, o["tail"][-200:]]
            res.add(k, REFUTED, "%s:%s: %s" % (e[0], e[1], e[2]), rule,
                    {"command": "%s -std=%s -fsyntax-only %s %s" % (comp, std, " ".join(_d), " ".join(cfg.flags))})

    # B. each documented macro named alone with only its own flag
    alone = sorted(m for m in FLAG if m not in ("AVEL_SSE",))
    jobs = [(m, comp) for m in alone for comp in comps]
    outs = common.pmap(lambda j: syntax_only(j[1], "c++11", ["-D" + j[0]], [FLAG[j[0]]] if FLAG[j[0]] else [], SRC, "alone"), jobs)
    for (m, comp), o in zip(jobs, outs):
        k = {"cfg": "alone:" + m, "compiler": comp, "op": "compile", "mode": "single-macro"}
        rule = "naming one macro with its own -m flag is enough"
        if o["rc"] == 0:
            res.add(k, HOLDS, "compiles", rule)
        else:
            e = o["errors"][0] if o["errors"] else ["?", 0, o["tail"][-200:]]
            res.add(k, REFUTED, "%s:%s: %s" % (e[0], e[1], e[2]), rule,
                    {"command": "%s -std=c++11 -fsyntax-only -D%s %s" % (comp, m, FLAG[m] or "")})

    # C. AVEL_AUTO_DETECT provides the same types and widths as the explicit macros
    pairs = [(c, comp) for c in cfgs for comp in comps]
    outs = common.pmap(lambda cc: (width_constants(cc[0], False, cc[1]), width_constants(cc[0], True, cc[1])), pairs)
    for (cfg, comp), (ex, au) in zip(pairs, outs):
        k = {"cfg": cfg.name, "op": "auto_detect_equivalence"}
        if comp != CLANGXX:
            k["compiler"] = comp
        rule = ("AVEL_AUTO_DETECT yields the same complete Vector<T,N> set and natural/max widths as naming explicitly the macro of "
                "every feature the compiler enables under the same -m flags")
        if not cfg.has("AVEL_SSE2"):
            res.add(k, UNDECIDED, "not comparable: the x86-64 baseline flags always define __SSE2__, so AVEL_AUTO_DETECT cannot "
                    "reproduce a macro set without AVEL_SSE2", rule)
            continue
        if "error" in ex or "error" in au:
            res.add(k, UNDECIDED, "probe does not compile (reported by the compile matrix)", rule)
            continue
        diff = [n for n in ex if ex[n] != au.get(n)]
        if diff:
            res.add(k, REFUTED, "differs in %s (explicit %s, auto %s)" % (diff[:4], [ex[n] for n in diff[:4]], [au.get(n) for n in diff[:4]]),
                    rule, {"flags": cfg.flags})
        else:
            res.add(k, HOLDS, "%d constants equal" % len(ex), rule)

    # C2. the same comparison for every vector macro named alone with only its own -m flag (the build the statement
    # calls "naming one macro is enough"): compilers differ in what a single flag implies (GCC's -mavx512f does not
    # define __FMA__), so this is where a detection rule that leans on a second predefined macro shows
    class _Alone:
        def __init__(self, m):
            self.name = "alone:" + m
            self.named = [m]
            self.defines = ["-D" + m]
            self.flags = [FLAG[m]] if FLAG[m] else []
    if not (a is not None and getattr(a, "configs", None)):
        singles = [_Alone(m) for m in alone if "AVEL_SSE2" in common.macro_closure([m])]
        pairs = [(c, comp) for c in singles for comp in comps]
        outs = common.pmap(lambda cc: (width_constants(cc[0], False, cc[1]), width_constants(cc[0], True, cc[1])), pairs)
        for (cfg, comp), (ex, au) in zip(pairs, outs):
            k = {"cfg": cfg.name, "op": "auto_detect_equivalence", "compiler": comp}
            rule = ("AVEL_AUTO_DETECT with a single -m flag yields the same complete Vector<T,N> set and natural/max widths as naming "
                    "that macro (plus the macro of every feature the compiler enables under the flag)")
            if "error" in ex or "error" in au:
                res.add(k, UNDECIDED, "probe does not compile", rule)
                continue
            diff = [n for n in ex if ex[n] != au.get(n)]
            if diff:
                res.add(k, REFUTED, "differs in %s (explicit %s, auto %s)" % (diff[:4], [ex[n] for n in diff[:4]], [au.get(n) for n in diff[:4]]),
                        rule, {"flags": cfg.flags, "compiler": comp})
            else:
                res.add(k, HOLDS, "%d constants equal" % len(ex), rule)

    # D. type-system witnesses (both compilers)
    jobs = []
    for cfg in cfgs:
        txt, desc = witness_tu(cfg)
        for comp in comps:
            jobs.append((cfg, comp, txt, desc))
    outs = common.pmap(lambda j: syntax_only(j[1], "c++11", j[0].defines, j[0].flags, j[2], "witness"), jobs)
    for (cfg, comp, txt, desc), o in zip(jobs, outs):
        failing = {}
        other = []
        for f, ln, msg in o["errors"]:
            if f == "t.cpp" and (ln - 1) in desc:
                failing.setdefault(ln - 1, msg)
            else:
                other.append("%s:%d %s" % (f, ln, msg))
        for idx, (kind, what) in sorted(desc.items()):
            k = {"cfg": cfg.name, "compiler": comp, "op": "witness:" + kind, "type": what}
            rule = {"exists": "documented width exists", "absent": "no undocumented width exists", "sizeof": "sizeof == N*sizeof(T)",
                    "trivially_copyable": "trivially copyable", "mask_trivial": "mask is trivial", "width_member": "::width",
                    "alias": "vecNxB alias identity", "width_const": "natural/max width constant equals the widest provided vector",
                    "alias_complete": "vecNx*/vecMx*/mask/arr aliases name complete types of that width",
                    "trait": "natural/maximum_vector_width traits agree"}[kind]
            if idx in failing:
                res.add(k, REFUTED, failing[idx], rule, {"line": txt.split("\n")[idx][:160]})
            elif o["rc"] != 0 and other and not failing:
                res.add(k, UNDECIDED, "witness TU fails elsewhere: %s" % other[0][:120], rule)
            else:
                res.add(k, HOLDS, "static_assert accepted", rule)

    # E. API parity: every catalogue operation the width-1 vector of an element type offers exists and is defined
    #    for every wider vector of that element type
    pcfgs = [c for c in cfgs if c.name in ("AVX2", "AVX512F", "everything")] if tier == "quick" else \
        [c for c in cfgs if c.has("AVEL_SSE2")]
    pres = common.Result("C19", tier)
    runner.run_families(pres, pcfgs, PARITY_FAMS, None, override="judge_parity", keytag="parity", tier="parity")
    have = {}
    for i in pres.inst:
        ky = i["key"]
        m = re.match(r"vec(\d+)x(\d+)([uif])", ky["type"])
        n, el = int(m.group(1)), m.group(2) + m.group(3)
        opk = ky["op"] if ky.get("param") is None else None
        if opk is None:
            # parameterised instances: use the operation name once (first parameter only)
            opk = ky["op"]
        st = i["verdict"]
        prev = have.get((ky["cfg"], el, opk, n))
        rank = {HOLDS: 0, UNDECIDED: 1, MISSING: 2, REFUTED: 3}
        if prev is None or rank[st] > rank[prev[0]]:
            have[(ky["cfg"], el, opk, n)] = (st, i.get("detail"))
    for (cfgn, el, opk, n), (st, det) in sorted(have.items()):
        if n == 1:
            continue
        base = have.get((cfgn, el, opk, 1))
        if base is None or base[0] != HOLDS:
            continue            # the width-1 vector does not offer it: no obligation
        k = {"cfg": cfgn, "type": "vec%dx%s" % (n, el), "op": "parity:" + opk}
        rule = "operation offered by vec1x%s is declared and defined for vec%dx%s" % (el, n, el)
        if st == HOLDS:
            res.add(k, HOLDS, "declared and defined", rule)
        else:
            res.add(k, REFUTED, det or st, rule, {"note": "generic code instantiated for this width fails to build or link"})
    for b in pres.broken:
        res.brk(b)

    # F. compiler independence of branch selection
    outs = common.pmap(lambda c: (preprocessed_lines(CLANGXX, c), preprocessed_lines(GXX, c)), cfgs)
    for cfg, (lc, lg) in zip(cfgs, outs):
        k = {"cfg": cfg.name, "op": "branch_selection"}
        rule = "g++ and clang++ select the same /repo/include lines except inside AVEL_GCC / AVEL_CLANG conditionals"
        rc, rg = regions(lc), regions(lg)
        diff = sorted(rc ^ rg)
        bad = [d for d in diff if not enclosing_condition_mentions(d[0], d[1] + 1, ("AVEL_GCC", "AVEL_CLANG", "AVEL_ICPX", "__clang__", "__GNUC__"))]
        if bad:
            res.add(k, REFUTED, "%d conditional region(s) active under only one compiler, e.g. the one starting at %s:%d" % (len(bad), bad[0][0], bad[0][1]), rule,
                    {"lines": ["%s:%d" % x for x in bad[:8]]})
        else:
            res.add(k, HOLDS, "%d conditional regions active under both, %d differ only in compiler-specific blocks" % (len(rc & rg), len(diff)), rule)

    # informational: documented implications vs Capabilities.hpp
    doc = open(os.path.join(common.REPO, "docs", "Capabilities.md")).read()
    imp = []
    cur = None
    for line in doc.splitlines():
        m = re.match(r"\* `(AVEL_\w+)`", line)
        if m:
            cur = m.group(1)
        m = re.match(r"\s+\* implies `(AVEL_\w+)`", line)
        if m and cur:
            imp.append((cur, m.group(1)))
    notes = []
    nimp = 0
    for a_, b_ in imp:
        if a_ in FLAG and b_ in FLAG:
            nimp += 1
            k = {"op": "implication:%s=>%s" % (a_, b_), "cfg": a_, "compiler": "clang++"}
            rule = ("naming one macro is enough: with only -D%s the macro %s, which docs/Capabilities.md lists as implied, "
                    "must be defined after including <avel/Avel.hpp>" % (a_, b_))
            if b_ not in common.macro_closure([a_]):
                notes.append("%s => %s documented but not implemented" % (a_, b_))
                res.add(k, REFUTED, "%s is not defined when only %s is named (the code and types guarded by it are silently absent)" % (b_, a_),
                        rule, {"build": "-D%s with its own -m flag only" % a_, "expected_defined": b_})
            else:
                res.add(k, HOLDS, "%s defined" % b_, rule)
    if nimp < 20:
        res.brk("only %d documented implications found in docs/Capabilities.md (format changed?)" % nimp)
    res.extra["documented_implications_not_implemented"] = notes
    res.extra["configurations"] = [c.name for c in cfgs]
    res.trusted = ["g++ 12 and clang++ 14 front ends", "static_assert / SFINAE semantics"]
    return common.finish(res, explanation="compile matrix (macro sets x {explicit, AVEL_AUTO_DETECT} x {g++, clang++} x standards), "
                         "single-macro builds, auto-detect equivalence of compile-time constants, static_assert witnesses for the documented "
                         "widths / aliases / layout / triviality, API parity over the wrapper catalogue (declared AND defined), "
                         "preprocessor branch-selection equality between the compilers",
                         write_floor=getattr(a, "write_floor", False), sample_n=20)
