"""C05: integer division and remainder (narrow structural claim + closed-form comparison where loop-free)."""
import json

import common
import runner
import ireq
from common import HOLDS, REFUTED, UNDECIDED
from c01 import select_cfgs, type_filter

TRAPPING = {"udiv", "sdiv", "urem", "srem"}


def trap_sites(f):
    out = []
    for b in f["blocks"]:
        for i in b["insts"]:
            if i["op"] in TRAPPING:
                out.append("%s (%s)" % (i["op"], i.get("loc", "?")))
            if i["op"] == "call" and "asm" in i and "div" in i["asm"]:
                out.append("asm %s" % i["asm"][:30])
    return out


def run(tier, a=None):
    res = common.Result("C05", tier)
    cfgs = select_cfgs(tier, a)
    tf = type_filter(a)
    jobs = runner.run_families(res, cfgs, ["div"], tf, keytag="value")
    npos = 0
    for job in jobs:
        if "broken" in job:
            continue
        with open(job["json"]) as fh:
            m = json.load(fh)
        F = m["functions"]
        key0 = {"cfg": job["cfg"], "type": job["type"]}
        width1 = job["type"].startswith("vec1x")
        # clause: div returns the same pair as / and %
        for opn, ref in (("quo", "div_quot"), ("quo_assign", "div_quot"), ("rem", "div_rem"), ("rem_assign", "div_rem")):
            f1, f2 = F.get("w_" + opn), F.get("w_" + ref)
            k = dict(key0, op=opn, clause="same-as-div")
            rule = "optimised body of %s is bisimilar (modulo names, block order, bitcasts) to div(x,y).%s" % (opn, ref[4:])
            if not f1 or not f2 or f1["decl"] or f2["decl"]:
                res.add(k, common.MISSING, "wrapper missing", rule)
                continue
            if ireq.equal(f1, f2):
                res.add(k, HOLDS, "bodies equal (%d instructions)" % sum(len(b["insts"]) for b in f1["blocks"]), rule)
            else:
                res.add(k, UNDECIDED, "bodies differ structurally", rule)
        if width1:
            for opn in ("div_quot", "div_rem"):
                f = F.get("w_" + opn)
                if f and not f["decl"] and trap_sites(f):
                    npos += 1      # positive control: width-1 division is a hardware division
    res.extra["positive_control_width1_hw_divisions"] = npos
    if npos == 0 and not (a and getattr(a, "types", None)):
        res.brk("positive control failed: no hardware division found in any width-1 div wrapper")
    res.trusted = ["clang -O2 preserves UB-free meaning", "bisimilar CFG+dataflow graphs compute the same function"]
    return common.finish(res, explanation="(same-as-div) x/y, x%y, /=, %= have the same optimised body as div(x,y).quot/.rem; "
                         "(no-trap) no trapping instruction in any multi-lane div; (value) loop-free emulations are compared "
                         "as closed forms with truncating sdiv/udiv/srem/urem on the lane for non-zero divisors, "
                         "long-division loops stay UNDECIDED",
                         write_floor=getattr(a, "write_floor", False))
