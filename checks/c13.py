"""C13: fpclassify/isnan/isinf/isfinite/isnormal/signbit and the quiet comparison functions."""
import common
import runner


def select_cfgs(tier, a):
    cfgs = common.all_configs(tier)
    if a is not None and getattr(a, "configs", None):
        want = a.configs.split(",")
        cfgs = [c for c in common.all_configs("thorough") if c.name in want]
    return cfgs


def type_filter(a):
    if a is not None and getattr(a, "types", None):
        want = set(a.types.split(","))
        return lambda vt, cfg: vt.name in want
    return None


def run(tier, a=None):
    res = common.Result("C13", tier)
    cfgs = select_cfgs(tier, a)
    runner.run_families(res, cfgs, ["fpclass"], type_filter(a))
    res.trusted = ["clang 14 front end and -O2 pipeline preserve the meaning of UB-free executions",
                   "LLVM LangRef semantics of the IR instructions; Intel SDM semantics of the x86 intrinsics as modelled in spec/isa.py",
                   "the term normaliser, the exact IEEE evaluator (lib/fpeval.py) and the abstract interpreter (lib/absint.py, self-tested against the concrete evaluator)"]
    return common.finish(res, explanation="every floating-point vector type x configuration x {fpclassify, isnan, isinf, isfinite, isnormal, signbit, isgreater, isgreaterequal, isless, islessequal, islessgreater, isunordered}: the classification predicates are decided on a finite partition of the lane's bit pattern induced by their comparison atoms (field-aligned partition, or the general segment partition) against the C library classification; the comparison functions must be the quiet fcmp predicate of the same lanes",
                         write_floor=getattr(a, "write_floor", False))
