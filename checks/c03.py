"""C03: mask objects behave as vectors of booleans (construction, logic, count/any/all/none, set_bits/keep/clear)."""
import common
import runner


def select_cfgs(tier, a):
    cfgs = common.all_configs(tier)
    if a is not None and getattr(a, "configs", None):
        want = a.configs.split(",")
        cfgs = [c for c in common.all_configs("thorough") if c.name in want]
    return cfgs


def type_filter(a):
    if a is not None and getattr(a, "types", None):
        want = set(a.types.split(","))
        return lambda vt, cfg: vt.name in want
    return None


def run(tier, a=None):
    res = common.Result("C03", tier)
    cfgs = select_cfgs(tier, a)
    runner.run_families(res, cfgs, ["mask"], type_filter(a))
    res.trusted = ["clang 14 front end and -O2 pipeline preserve the meaning of UB-free executions",
                   "LLVM LangRef semantics of the IR instructions; Intel SDM semantics of the x86 intrinsics as modelled in spec/isa.py",
                   "the term normaliser, the exact IEEE evaluator (lib/fpeval.py) and the abstract interpreter (lib/absint.py, self-tested against the concrete evaluator)"]
    return common.finish(res, explanation='every mask type x configuration x {bool / array construction, &, |, ^, !, compound forms, ==, !=, count, any, all, none, extract / insert<N>, set_bits}: optimised IR summarised into a closed form over one boolean per lane and compared with the lane-wise boolean definition; the representation invariant (k-mask bits beyond the lane count are zero, lane masks are uniform) is part of the compared form',
                         write_floor=getattr(a, "write_floor", False))
